package oracle

import (
	"bytes"
	"encoding/json"
	"fmt"
	"io"
	"unicode/utf8"
)

// Node is an ordered JSON tree produced by the independent tokenizer (encoding/json's Decoder.Token; the
// library's parser, fastjson, is never used as an oracle).  Member order, duplicate member names and
// number lexemes are preserved.
type Node struct {
	Kind    string // object | array | string | number | bool | null
	Members []Member
	Elems   []*Node
	Str     string
	Num     string
	Bool    bool
}

type Member struct {
	Name string
	Val  *Node
}

// Get returns the first member with the given name.
func (n *Node) Get(name string) *Node {
	if n == nil {
		return nil
	}
	for _, m := range n.Members {
		if m.Name == name {
			return m.Val
		}
	}
	return nil
}

// ParseJSON accepts exactly one JSON value (surrounding white space allowed) and reports every object that repeats a
// member name.  validUTF8 says whether the input bytes are valid UTF-8 (RFC 8259 requires it; encoding/json does not check).
func ParseJSON(b []byte) (root *Node, dups []string, validUTF8 bool, err error) {
	validUTF8 = utf8.Valid(b)
	if !json.Valid(b) {
		return nil, nil, validUTF8, fmt.Errorf("not a single syntactically valid JSON value")
	}
	dec := json.NewDecoder(bytes.NewReader(b))
	dec.UseNumber()
	root, err = parseValue(dec, "$", &dups)
	if err != nil {
		return nil, nil, validUTF8, err
	}
	if _, err := dec.Token(); err != io.EOF {
		return nil, nil, validUTF8, fmt.Errorf("trailing data after the JSON value")
	}
	return root, dups, validUTF8, nil
}

func parseValue(dec *json.Decoder, path string, dups *[]string) (*Node, error) {
	tok, err := dec.Token()
	if err != nil {
		return nil, err
	}
	switch t := tok.(type) {
	case json.Delim:
		switch t {
		case '{':
			n := &Node{Kind: "object"}
			seen := map[string]bool{}
			for dec.More() {
				kt, err := dec.Token()
				if err != nil {
					return nil, err
				}
				name, ok := kt.(string)
				if !ok {
					return nil, fmt.Errorf("member name is not a string at %s", path)
				}
				if seen[name] {
					*dups = append(*dups, path+"."+name)
				}
				seen[name] = true
				v, err := parseValue(dec, path+"."+name, dups)
				if err != nil {
					return nil, err
				}
				n.Members = append(n.Members, Member{name, v})
			}
			if _, err := dec.Token(); err != nil {
				return nil, err
			}
			return n, nil
		case '[':
			n := &Node{Kind: "array"}
			for i := 0; dec.More(); i++ {
				v, err := parseValue(dec, fmt.Sprintf("%s[%d]", path, i), dups)
				if err != nil {
					return nil, err
				}
				n.Elems = append(n.Elems, v)
			}
			if _, err := dec.Token(); err != nil {
				return nil, err
			}
			return n, nil
		}
		return nil, fmt.Errorf("unexpected delimiter %v at %s", t, path)
	case string:
		return &Node{Kind: "string", Str: t}, nil
	case json.Number:
		return &Node{Kind: "number", Num: t.String()}, nil
	case bool:
		return &Node{Kind: "bool", Bool: t}, nil
	case nil:
		return &Node{Kind: "null"}, nil
	}
	return nil, fmt.Errorf("unexpected token %v at %s", tok, path)
}
