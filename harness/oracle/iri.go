// Package oracle holds the reference models the checks compare the library against.  Nothing in here
// calls the library under test.
package oracle

import (
	"net/url"
	"path"
	"sort"
	"strings"
)

// IRIKey is the reference normal form of an absolute URL (C10, C14, C15): lower-case scheme, lower-case
// host including port, lower-cased cleaned path with the empty path equal to "/", sorted multiset of decoded
// query pairs.  The fragment is dropped.
type IRIKey struct {
	Scheme, Host, Path, Query string
	OK                        bool // false: not an absolute URL with scheme and host
}

func NormIRI(s string) IRIKey {
	u, err := url.Parse(s)
	if err != nil || u.Scheme == "" || u.Host == "" {
		return IRIKey{}
	}
	p := u.Path
	if p == "" {
		p = "/"
	}
	p = strings.ToLower(path.Clean(p))
	q := u.Query()
	var pairs []string
	for k, vs := range q {
		for _, v := range vs {
			pairs = append(pairs, url.QueryEscape(k)+"="+url.QueryEscape(v))
		}
	}
	sort.Strings(pairs)
	return IRIKey{strings.ToLower(u.Scheme), strings.ToLower(u.Host), p, strings.Join(pairs, "&"), true}
}

// EquivIRI is the reference equivalence on absolute URLs.
func EquivIRI(a, b string, checkScheme bool) bool {
	ka, kb := NormIRI(a), NormIRI(b)
	if !ka.OK || !kb.OK {
		return strings.EqualFold(a, b)
	}
	if checkScheme && ka.Scheme != kb.Scheme {
		return false
	}
	return ka.Host == kb.Host && ka.Path == kb.Path && ka.Query == kb.Query
}

// IDKey is the identity of an addressee / list member: the normal form ignoring the scheme.
func IDKey(s string) string {
	k := NormIRI(s)
	if !k.OK {
		return "raw:" + strings.ToLower(s)
	}
	return k.Host + "|" + k.Path + "|" + k.Query
}
