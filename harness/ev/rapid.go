package ev

import (
	"flag"
	"fmt"
	"os"
	"strconv"
	"testing"

	"pgregory.net/rapid"
)

// RapidSeed maps VERIF_SEED (+ shard, + layer) to a non-zero rapid seed.
func (r *Rec) RapidSeed(layer string) uint64 {
	s := (uint64(r.Seed)+uint64(r.Shard)*1000003)*2654435761 + 1 + hash64(layer)%9973
	s &= (1 << 62) - 1
	if s == 0 {
		s = 1
	}
	return s
}

// Rapid runs one rapid layer of `checks` cases as a sub-test.  The property reports a failing case with
// r.Pending(...) followed by t.Fatalf; after shrinking, the minimal case becomes the violation + replay file.
func (r *Rec) Rapid(t *testing.T, layer string, checks int, prop func(*rapid.T)) {
	if !r.WantLayer(layer, false) {
		return
	}
	_ = os.RemoveAll("testdata/rapid")
	if r.Replaying() {
		if ff := r.ReplayFailFile(); ff != "" {
			_ = flag.Set("rapid.failfile", ff)
		}
		checks = 1
	} else {
		_ = flag.Set("rapid.failfile", "")
	}
	_ = flag.Set("rapid.checks", strconv.Itoa(checks))
	_ = flag.Set("rapid.seed", strconv.FormatUint(r.RapidSeed(layer), 10))
	ok := t.Run(layer, rapid.MakeCheck(prop))
	r.Flush(layer, !ok, fmt.Sprintf("rapid layer %s failed", layer))
}
