// Package ev is the evidence recorder, known-finding matcher and guard layer shared by all checks.
//
// A check evaluates cases; every case yields a set of keyed differences (never a bare boolean).
// A difference whose key matches a "known" entry of known_findings.json is counted and masked,
// anything else is a violation: it is written to a replay file and announced on stdout as a
// VIOLATION-KEY line that the driver turns into the final VIOLATION line and exit code.
package ev

import (
	"encoding/json"
	"fmt"
	"hash/fnv"
	"os"
	"path"
	"path/filepath"
	"regexp"
	"runtime"
	"sort"
	"strconv"
	"strings"
	"sync"
	"testing"
	"time"
)

// Finding is one entry of known_findings.json.
type Finding struct {
	Property string `json:"property"`
	Key      string `json:"key"`    // glob over the difference key ('*' matches any run of characters)
	Status   string `json:"status"` // "known" | "fixed"
	Commit   string `json:"commit,omitempty"`
	What     string `json:"what"`
	Repro    string `json:"repro,omitempty"`
	re       *regexp.Regexp
}

type Violation struct {
	Key    string `json:"key"`
	Detail string `json:"detail"`
	Replay string `json:"replay"`
}

type Rec struct {
	ID    string
	Test  string
	Tier  string
	Seed  int64
	Shard int
	// Shards is the number of processes the driver started for this run (>=1).
	Shards int

	mu         sync.Mutex
	start      time.Time
	evals      int64
	nontrivial map[uint64]struct{}
	labels     map[string]int64
	first      []interface{}
	resv       []resvItem
	findings   []*Finding
	knownHit   map[string]int64
	excluded   int64
	violations map[string]Violation
	cellsTotal int64
	cellsDone  int64
	exhaustive map[string]bool
	rules      []string
	assume     []string
	notes      map[string]interface{}
	uncovered  []string
	replay     *ReplaySpec
	lastFail   map[string]*pending
}

type resvItem struct {
	h uint64
	v interface{}
}

type pending struct {
	key, detail string
	dump        interface{}
}

// ReplaySpec is the content of a replay file.
type ReplaySpec struct {
	Property string      `json:"property"`
	Test     string      `json:"test"`
	Layer    string      `json:"layer,omitempty"`
	Cell     string      `json:"cell,omitempty"`
	Key      string      `json:"key"`
	Detail   string      `json:"detail"`
	Case     interface{} `json:"case,omitempty"`
	FailFile string      `json:"rapid_failfile,omitempty"`
	Seed     int64       `json:"seed"`
	Tier     string      `json:"tier"`
}

func verifDir() string {
	if d := os.Getenv("VERIF_DIR"); d != "" {
		return d
	}
	return "/verif"
}

func envInt(name string, def int64) int64 {
	if s := os.Getenv(name); s != "" {
		if v, err := strconv.ParseInt(s, 10, 64); err == nil {
			return v
		}
	}
	return def
}

func globRe(g string) *regexp.Regexp {
	var b strings.Builder
	b.WriteString("^")
	for _, part := range strings.Split(g, "*") {
		b.WriteString(regexp.QuoteMeta(part))
		b.WriteString(".*")
	}
	s := strings.TrimSuffix(b.String(), ".*") + "$"
	return regexp.MustCompile(s)
}

// Open creates the recorder of one property check.  It reads VERIF_TIER, VERIF_SEED, VERIF_SHARD,
// VERIF_SHARDS, VERIF_REPLAY and the committed known_findings.json (never written at run time).
func Open(t *testing.T, id string) *Rec {
	r := &Rec{
		ID: id, Test: t.Name(), Tier: os.Getenv("VERIF_TIER"), Seed: envInt("VERIF_SEED", 1),
		Shard: int(envInt("VERIF_SHARD", 0)), Shards: int(envInt("VERIF_SHARDS", 1)),
		start: time.Now(), nontrivial: map[uint64]struct{}{}, labels: map[string]int64{},
		knownHit: map[string]int64{}, violations: map[string]Violation{}, exhaustive: map[string]bool{},
		notes: map[string]interface{}{}, lastFail: map[string]*pending{},
	}
	if r.Tier == "" {
		r.Tier = "quick"
	}
	if r.Shards < 1 {
		r.Shards = 1
	}
	fp := os.Getenv("VERIF_FINDINGS")
	if fp == "" {
		fp = filepath.Join(verifDir(), "known_findings.json")
	}
	if b, err := os.ReadFile(fp); err == nil {
		var all struct {
			Findings []*Finding `json:"findings"`
		}
		if err := json.Unmarshal(b, &all); err != nil {
			t.Fatalf("known_findings.json unreadable: %v", err)
		}
		for _, f := range all.Findings {
			if f.Property == id {
				f.re = globRe(f.Key)
				r.findings = append(r.findings, f)
			}
		}
	}
	if rp := os.Getenv("VERIF_REPLAY"); rp != "" {
		b, err := os.ReadFile(rp)
		if err != nil {
			t.Fatalf("replay file: %v", err)
		}
		r.replay = &ReplaySpec{}
		if err := json.Unmarshal(b, r.replay); err != nil {
			t.Fatalf("replay file: %v", err)
		}
	}
	return r
}

func (r *Rec) Thorough() bool { return r.Tier == "thorough" }

// Pick returns q in the quick tier and t in the thorough tier.
func (r *Rec) Pick(q, t int) int {
	if r.Thorough() {
		return t
	}
	return q
}

// Replaying reports whether this run re-executes one saved case.
func (r *Rec) Replaying() bool { return r.replay != nil }

// WantLayer tells a layer whether it has to run: always in a normal run, only the recorded layer in a replay.
// Deterministic (seed independent) layers run in shard 0 only.
func (r *Rec) WantLayer(layer string, deterministic bool) bool {
	if r.replay != nil {
		return r.replay.Layer == layer
	}
	if deterministic && r.Shard != 0 {
		return false
	}
	return true
}

// WantCell filters enumerated cells in a replay.
func (r *Rec) WantCell(cell string) bool {
	if r.replay != nil && r.replay.Cell != "" {
		return r.replay.Cell == cell
	}
	return true
}

// ReplayCell is the enumerated cell being replayed ("" otherwise).
func (r *Rec) ReplayCell() string {
	if r.replay != nil {
		return r.replay.Cell
	}
	return ""
}

// ReplayFailFile is the rapid fail file of the case being replayed ("" otherwise).
func (r *Rec) ReplayFailFile() string {
	if r.replay != nil {
		return r.replay.FailFile
	}
	return ""
}

func hash64(s string) uint64 {
	h := fnv.New64a()
	_, _ = h.Write([]byte(s))
	return h.Sum64()
}

// Case counts one evaluated case.  canon is a canonical rendering of the case (used for distinctness),
// nontrivial is the property's stated non-triviality rule evaluated on this case.
func (r *Rec) Case(canon string, nontrivial bool, labels ...string) {
	r.mu.Lock()
	defer r.mu.Unlock()
	r.evals++
	if nontrivial {
		r.nontrivial[hash64(canon)] = struct{}{}
	}
	layer := ""
	for _, l := range labels {
		if l != "" {
			r.labels[l]++
			if layer == "" {
				layer = strings.SplitN(l, " ", 2)[0]
			}
		}
	}
	if layer != "" {
		r.labels["@cases "+layer]++ // cases per layer (the first word of a case's first label names its layer)
	}
}

// Label counts a class without counting a case.
func (r *Rec) Label(l string) {
	r.mu.Lock()
	r.labels[l]++
	r.mu.Unlock()
}

// Sample offers a case for the evidence file: the first three are kept, plus the five with the smallest hash
// (a deterministic reservoir).
func (r *Rec) Sample(canon string, v interface{}) {
	r.mu.Lock()
	defer r.mu.Unlock()
	if len(r.first) < 3 {
		r.first = append(r.first, v)
		return
	}
	h := hash64(canon)
	if len(r.resv) < 5 {
		r.resv = append(r.resv, resvItem{h, v})
		return
	}
	mx := 0
	for i := range r.resv {
		if r.resv[i].h > r.resv[mx].h {
			mx = i
		}
	}
	if h < r.resv[mx].h {
		r.resv[mx] = resvItem{h, v}
	}
}

// Cells accounts for an enumerated layer.
func (r *Rec) Cells(total, done int) {
	r.mu.Lock()
	r.cellsTotal += int64(total)
	r.cellsDone += int64(done)
	r.mu.Unlock()
}

// Exhaustive records that a finite layer was enumerated completely.
func (r *Rec) Exhaustive(layer string, complete bool) {
	r.mu.Lock()
	r.exhaustive[layer] = complete
	r.mu.Unlock()
}

func (r *Rec) Rule(s string)   { r.mu.Lock(); r.rules = append(r.rules, s); r.mu.Unlock() }
func (r *Rec) Assume(s string) { r.mu.Lock(); r.assume = append(r.assume, s); r.mu.Unlock() }
func (r *Rec) Note(k string, v interface{}) {
	r.mu.Lock()
	r.notes[k] = v
	r.mu.Unlock()
}
func (r *Rec) Uncovered(s string) { r.mu.Lock(); r.uncovered = append(r.uncovered, s); r.mu.Unlock() }

// Peek reports whether key is masked by a "known" finding without counting the hit.
func (r *Rec) Peek(key string) bool {
	for _, f := range r.findings {
		if f.Status == "known" && f.re.MatchString(key) {
			return true
		}
	}
	return false
}

// Known reports whether key is masked by a "known" finding (and counts the hit).
func (r *Rec) Known(key string) bool {
	for _, f := range r.findings {
		if f.Status == "known" && f.re.MatchString(key) {
			r.mu.Lock()
			r.knownHit[f.Key]++
			r.excluded++
			r.mu.Unlock()
			return true
		}
	}
	return false
}

var unsafeName = regexp.MustCompile(`[^A-Za-z0-9_.-]+`)

func (r *Rec) replayPath(key string) string {
	name := unsafeName.ReplaceAllString(key, "_")
	if len(name) > 80 {
		name = name[:80]
	}
	dir := os.Getenv("VERIF_REPLAYS_DIR")
	if dir == "" {
		dir = filepath.Join(verifDir(), "replays")
	}
	return filepath.Join(dir, r.ID, fmt.Sprintf("%s-%016x.json", name, hash64(key)))
}

// Report handles one difference found in a deterministic (enumerated) layer.  It returns true when the
// difference is a violation (not masked by a known finding).
func (r *Rec) Report(layer, cell, key, detail string, dump interface{}) bool {
	if r.Known(key) {
		return false
	}
	r.mu.Lock()
	_, seen := r.violations[key]
	r.mu.Unlock()
	if seen {
		return true
	}
	r.writeViolation(&ReplaySpec{Property: r.ID, Test: r.Test, Layer: layer, Cell: cell, Key: key, Detail: detail, Case: dump, Seed: r.Seed, Tier: r.Tier})
	return true
}

func (r *Rec) writeViolation(sp *ReplaySpec) {
	p := r.replayPath(sp.Key)
	if r.replay == nil { // a replay run never rewrites the saved cases
		_ = os.MkdirAll(filepath.Dir(p), 0o755)
		b, _ := json.MarshalIndent(sp, "", " ")
		_ = os.WriteFile(p, b, 0o644)
	}
	r.mu.Lock()
	r.violations[sp.Key] = Violation{sp.Key, sp.Detail, p}
	r.mu.Unlock()
	d := sp.Detail
	if len(d) > 600 {
		d = d[:600] + "…"
	}
	kb, _ := json.Marshal(sp.Key)
	db, _ := json.Marshal(d)
	fmt.Printf("VIOLATION-KEY property=%s replay=%s key=%s detail=%s\n", r.ID, p, kb, db) // JSON strings: the driver reads them back
}

// Unknown filters keyed differences, returning those no known finding masks.
func (r *Rec) Unknown(keys []string) []string {
	var out []string
	for _, k := range keys {
		if !r.Known(k) {
			out = append(out, k)
		}
	}
	return out
}

// Pending remembers the most recent failing execution of a rapid property (the last one rapid runs is the
// shrunk minimal case); Flush turns it into a violation after rapid has returned.
func (r *Rec) Pending(layer, key, detail string, dump interface{}) {
	r.mu.Lock()
	r.lastFail[layer] = &pending{key, detail, dump}
	r.mu.Unlock()
}

// Flush is called after a rapid layer finished; failed says whether the rapid sub-test failed.
func (r *Rec) Flush(layer string, failed bool, rapidOutput string) {
	r.mu.Lock()
	p := r.lastFail[layer]
	delete(r.lastFail, layer)
	r.mu.Unlock()
	if !failed {
		return
	}
	sp := &ReplaySpec{Property: r.ID, Test: r.Test, Layer: layer, Seed: r.Seed, Tier: r.Tier}
	if p != nil {
		sp.Key, sp.Detail, sp.Case = p.key, p.detail, p.dump
	} else {
		sp.Key, sp.Detail = "harness "+layer+" failed without a keyed difference", rapidOutput
	}
	// rapid wrote its fail file below ./testdata/rapid/<test name>/ ; move it next to the replay file.
	matches, _ := filepath.Glob(filepath.Join("testdata", "rapid", "*", "*.fail"))
	more, _ := filepath.Glob(filepath.Join("testdata", "rapid", "*", "*", "*.fail"))
	matches = append(matches, more...)
	if len(matches) > 0 {
		sort.Strings(matches)
		src := matches[len(matches)-1]
		dst := strings.TrimSuffix(r.replayPath(sp.Key), ".json") + ".fail"
		_ = os.MkdirAll(filepath.Dir(dst), 0o755)
		if b, err := os.ReadFile(src); err == nil {
			_ = os.WriteFile(dst, b, 0o644)
			sp.FailFile = dst
		}
		for _, m := range matches {
			_ = os.Remove(m)
		}
	}
	r.writeViolation(sp)
}

// Violations returns the number of distinct violation keys so far.
func (r *Rec) Violations() int {
	r.mu.Lock()
	defer r.mu.Unlock()
	return len(r.violations)
}

// Close writes the evidence part file of this process.
func (r *Rec) Close(t *testing.T) {
	r.mu.Lock()
	defer r.mu.Unlock()
	if SlowCalls > 0 {
		r.notes["calls_that_outran_the_watchdog_on_a_busy_machine_and_returned_on_the_longer_leash_or_not"] = SlowCalls
	}
	hs := make([]string, 0, len(r.nontrivial))
	for h := range r.nontrivial {
		hs = append(hs, strconv.FormatUint(h, 16))
	}
	sort.Strings(hs)
	samples := append([]interface{}{}, r.first...)
	sort.Slice(r.resv, func(i, j int) bool { return r.resv[i].h < r.resv[j].h })
	for _, s := range r.resv {
		samples = append(samples, s.v)
	}
	var vs []Violation
	for _, v := range r.violations {
		vs = append(vs, v)
	}
	sort.Slice(vs, func(i, j int) bool { return vs[i].Key < vs[j].Key })
	type fout struct {
		Key    string `json:"key"`
		Status string `json:"status"`
		What   string `json:"what"`
		Hits   int64  `json:"hits"`
	}
	var fs []fout
	for _, f := range r.findings {
		fs = append(fs, fout{f.Key, f.Status, f.What, r.knownHit[f.Key]})
	}
	exh := len(r.exhaustive) > 0
	for _, ok := range r.exhaustive {
		exh = exh && ok
	}
	part := map[string]interface{}{
		"property_id": r.ID, "test": r.Test, "tier": r.Tier, "seed": r.Seed, "shard": r.Shard,
		"evaluations": r.evals, "hashes": hs, "labels": r.labels, "samples": samples,
		"cells_total": r.cellsTotal, "cells_covered": r.cellsDone, "exhaustive_layers": r.exhaustive,
		"all_layers_exhaustive": exh, "rules": r.rules, "assumptions": r.assume, "notes": r.notes,
		"uncovered": r.uncovered, "findings": fs, "excluded_by_known_finding": r.excluded,
		"violations": vs, "wall_s": time.Since(r.start).Seconds(), "replaying": r.replay != nil,
	}
	out := os.Getenv("VERIF_PART")
	if out == "" {
		out = filepath.Join(verifDir(), "evidence", "parts", fmt.Sprintf("%s.%d.json", r.ID, r.Shard))
	}
	_ = os.MkdirAll(filepath.Dir(out), 0o755)
	b, err := json.Marshal(part)
	if err != nil {
		t.Fatalf("evidence part not serialisable: %v", err)
	}
	if err := os.WriteFile(out, b, 0o644); err != nil {
		t.Fatalf("evidence part: %v", err)
	}
	if len(vs) > 0 {
		t.Fail()
	}
}

// LoadFindings returns a recorder that only knows the committed findings of a property (used by fuzz targets, which have
// no evidence to write themselves).
func LoadFindings(id string) *Rec {
	r := &Rec{ID: id, knownHit: map[string]int64{}}
	fp := os.Getenv("VERIF_FINDINGS")
	if fp == "" {
		fp = filepath.Join(verifDir(), "known_findings.json")
	}
	if b, err := os.ReadFile(fp); err == nil {
		var all struct {
			Findings []*Finding `json:"findings"`
		}
		if json.Unmarshal(b, &all) == nil {
			for _, f := range all.Findings {
				if f.Property == id {
					f.re = globRe(f.Key)
					r.findings = append(r.findings, f)
				}
			}
		}
	}
	return r
}

// ---- guards ----

// PanicInfo describes a recovered panic.
type PanicInfo struct {
	Value string
	Frame string // innermost function inside the library under test
	Stack string
}

const libPrefix = "github.com/go-ap/activitypub."

// Safe runs fn and converts a panic into a PanicInfo (nil when fn returned normally).
func Safe(fn func()) (pi *PanicInfo) {
	defer func() {
		if rec := recover(); rec != nil {
			pcs := make([]uintptr, 64)
			n := runtime.Callers(2, pcs)
			frames := runtime.CallersFrames(pcs[:n])
			frame := ""
			var sb strings.Builder
			for {
				f, more := frames.Next()
				fmt.Fprintf(&sb, "%s:%d\n", f.Function, f.Line)
				if frame == "" && strings.HasPrefix(f.Function, libPrefix) {
					frame = strings.TrimPrefix(f.Function, libPrefix)
				}
				if !more {
					break
				}
			}
			if frame == "" {
				frame = "outside-library"
			}
			// closures: keep the enclosing named function
			if i := strings.Index(frame, ".func"); i > 0 {
				frame = frame[:i]
			}
			frame = strings.TrimSuffix(path.Base(frame), "[...]")
			pi = &PanicInfo{Value: fmt.Sprint(rec), Frame: frame, Stack: sb.String()}
		}
	}()
	fn()
	return nil
}

// Timed runs fn in a goroutine under a watchdog.  ok=false means fn did not return within d.
func Timed(d time.Duration, fn func()) (pi *PanicInfo, ok bool) {
	done := make(chan *PanicInfo, 1)
	go func() { done <- Safe(fn) }()
	// a stopped timer, not time.After: millions of guarded calls per minute would otherwise leave millions of pending timers behind
	t := time.NewTimer(d)
	defer t.Stop()
	select {
	case pi = <-done:
		return pi, true
	case <-t.C:
		// last look: under heavy load the timer can win the race against a call that has just finished
		select {
		case pi = <-done:
			return pi, true
		default:
		}
		// a budget hit is not a verdict while the machine is oversubscribed (other checks, builds and campaigns share the cores: a
		// call that needs a second of processor time may not get it in ten): the leash is five times longer then, and a call that
		// returns within it was slow, not stuck
		if busy() {
			SlowCalls++
			t2 := time.NewTimer(5 * d)
			defer t2.Stop()
			select {
			case pi = <-done:
				return pi, true
			case <-t2.C:
			}
		}
		return nil, false
	}
}

// SlowCalls counts the guarded calls that outran their watchdog on a busy machine and were given the longer leash.
var SlowCalls int

// busy reports whether more runnable tasks than processors were waiting over the last minute (Linux load average).
func busy() bool {
	b, err := os.ReadFile("/proc/loadavg")
	if err != nil {
		return false
	}
	var one float64
	if _, err := fmt.Sscan(string(b), &one); err != nil {
		return false
	}
	return one > float64(runtime.NumCPU())
}

// JSON renders v compactly for dumps.
func JSON(v interface{}) string {
	b, err := json.Marshal(v)
	if err != nil {
		return fmt.Sprintf("%+v", v)
	}
	return string(b)
}
