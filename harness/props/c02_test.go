package props

import (
	"encoding/json"
	"fmt"
	"math"
	"path/filepath"
	"reflect"
	"regexp"
	"sort"
	"strconv"
	"strings"
	"testing"
	"time"
	"unicode/utf8"

	ap "github.com/go-ap/activitypub"
	"pgregory.net/rapid"
	"verif/harness/ev"
	"verif/harness/oracle"
	"verif/harness/vocab"
)

// C02 — Emitted JSON is valid, unambiguous, injection-free and correctly termed.

// charClass names the most troublesome character class present in a byte string.
func charClass(s string) string {
	if !utf8.ValidString(s) {
		return "nonutf8"
	}
	cls := "benign"
	rank := map[string]int{"benign": 0, "special": 1, "quote": 2, "backslash": 3, "control": 4}
	up := func(c string) {
		if rank[c] > rank[cls] {
			cls = c
		}
	}
	for _, r := range s {
		switch {
		case r < 0x20 || r == 0x7f:
			up("control")
		case r == '\\':
			up("backslash")
		case r == '"':
			up("quote")
		case r == 0x2028 || r == 0x2029 || r > 0xffff || r == 0xfffd:
			up("special")
		}
	}
	return cls
}

// worstClass scans every string and text held anywhere in a value.
func worstClass(x interface{}) string {
	order := []string{"benign", "special", "quote", "backslash", "control", "nonutf8"}
	worst := 0
	var walk func(v reflect.Value, d int)
	walk = func(v reflect.Value, d int) {
		if !v.IsValid() || d > 50 || v.Type() == vocab.TTime {
			return
		}
		switch v.Kind() {
		case reflect.String:
			c := charClass(v.String())
			for i, o := range order {
				if o == c && i > worst {
					worst = i
				}
			}
		case reflect.Slice:
			if v.Type().Elem().Kind() == reflect.Uint8 {
				c := charClass(string(v.Bytes()))
				for i, o := range order {
					if o == c && i > worst {
						worst = i
					}
				}
				return
			}
			for i := 0; i < v.Len(); i++ {
				walk(v.Index(i), d+1)
			}
		case reflect.Ptr, reflect.Interface:
			if !v.IsNil() {
				walk(v.Elem(), d+1)
			}
		case reflect.Struct:
			for i := 0; i < v.NumField(); i++ {
				if v.Type().Field(i).IsExported() {
					walk(v.Field(i), d+1)
				}
			}
		}
	}
	walk(reflect.ValueOf(x), 0)
	return order[worst]
}

var xsdDurRe = regexp.MustCompile(`^(-?)P(?:(\d+)Y)?(?:(\d+)M)?(?:(\d+)D)?(?:T(?:(\d+)H)?(?:(\d+)M)?(?:(\d+(?:\.\d+)?)S)?)?$`)

// parseXSDDuration is an independent reader of the xsd:duration lexical form (years and months are not expected for
// the generated domain, they are counted as 365 and 30 days so that a wrong value shows).
func parseXSDDuration(s string) (time.Duration, bool) {
	m := xsdDurRe.FindStringSubmatch(s)
	if m == nil || s == "P" || s == "-P" || strings.HasSuffix(s, "T") {
		return 0, false
	}
	num := func(x string) float64 {
		if x == "" {
			return 0
		}
		f, _ := strconv.ParseFloat(x, 64)
		return f
	}
	secs := num(m[2])*365*86400 + num(m[3])*30*86400 + num(m[4])*86400 + num(m[5])*3600 + num(m[6])*60 + num(m[7])
	d := time.Duration(math.Round(secs * 1e9))
	if m[1] == "-" {
		d = -d
	}
	return d, true
}

type accounting struct {
	ds []keyed
}

func (a *accounting) add(goType, field, effect, class, detail string) {
	k := fmt.Sprintf("json-out %s.%s %s", goType, field, effect)
	if class != "" {
		k += " chars=" + class
	}
	a.ds = append(a.ds, keyed{k, detail})
}

func nodeDesc(n *oracle.Node) string {
	if n == nil {
		return "<absent>"
	}
	switch n.Kind {
	case "string":
		return fmt.Sprintf("string %q", n.Str)
	case "number":
		return "number " + n.Num
	case "bool":
		return fmt.Sprintf("bool %v", n.Bool)
	case "object":
		var ks []string
		for _, m := range n.Members {
			ks = append(ks, m.Name)
		}
		return "object{" + strings.Join(ks, ",") + "}"
	case "array":
		return fmt.Sprintf("array[%d]", len(n.Elems))
	}
	return n.Kind
}

func isZeroRepr(n *oracle.Node) bool {
	switch n.Kind {
	case "null":
		return true
	case "number":
		f, err := strconv.ParseFloat(n.Num, 64)
		return err == nil && f == 0
	case "bool":
		return !n.Bool
	case "string":
		return n.Str == ""
	case "array":
		return len(n.Elems) == 0
	case "object":
		return len(n.Members) == 0
	}
	return false
}

func (a *accounting) str(goType, field string, want string, n *oracle.Node, exact bool) {
	cls := charClass(want)
	if n == nil {
		a.add(goType, field, "missing", cls, fmt.Sprintf("the value %q is not in the output", want))
		return
	}
	if n.Kind != "string" {
		a.add(goType, field, "wrong-kind", cls, fmt.Sprintf("expected a JSON string for %q, got %s", want, nodeDesc(n)))
		return
	}
	if exact && n.Str != want {
		a.add(goType, field, "string-altered", cls, fmt.Sprintf("the string decodes to %q, the value holds %q", n.Str, want))
	}
	// a string that is not valid UTF-8 cannot come back byte for byte (JSON text is UTF-8): whatever replacement policy the
	// writer follows, the valid runes must come back unchanged, in order, once
	if !exact && validRunes(n.Str) != validRunes(want) {
		a.add(goType, field, "string-altered", cls, fmt.Sprintf("the string decodes to %q, the value holds %q: apart from the bytes that are not UTF-8 the text differs", n.Str, want))
	}
}

// validRunes drops the bytes that are not part of a valid UTF-8 sequence, and U+FFFD itself.
func validRunes(s string) string {
	var b strings.Builder
	for i := 0; i < len(s); {
		r, size := utf8.DecodeRuneInString(s[i:])
		if r != utf8.RuneError {
			b.WriteRune(r)
		}
		i += size
	}
	return b.String()
}

// item accounts for one item position.
func (a *accounting) item(goType, field string, it ap.Item, n *oracle.Node, exact bool) {
	it = vocab.NormItem(it)
	if it == nil {
		if n != nil && !isZeroRepr(n) {
			a.add(goType, field, "extra-member", "", "member present for an unset property: "+nodeDesc(n))
		}
		return
	}
	if n == nil {
		a.add(goType, field, "missing", worstClass(it), "set property is not in the output: "+clipStr(vocab.Dump(it), 200))
		return
	}
	switch v := it.(type) {
	case ap.IRI:
		a.str(goType, field, string(v), n, exact)
	case ap.ItemCollection:
		if n.Kind != "array" {
			a.add(goType, field, "wrong-kind", "", fmt.Sprintf("a list of %d items is written as %s", len(v), nodeDesc(n)))
			return
		}
		if len(n.Elems) != len(v) {
			a.add(goType, field, "list-length", "", fmt.Sprintf("a list of %d items is written as an array of %d", len(v), len(n.Elems)))
			return
		}
		for i := range v {
			a.item(goType, field, v[i], n.Elems[i], exact)
		}
	default:
		sv, ok := vocab.StructOf(it)
		if !ok {
			return
		}
		if n.Kind != "object" {
			a.add(goType, field, "wrong-kind", "", "an embedded "+sv.Type().Name()+" is written as "+nodeDesc(n))
			return
		}
		a.structValue(sv, n, exact)
	}
}

// structValue walks a struct value and the JSON object written for it together.
func (a *accounting) structValue(sv reflect.Value, n *oracle.Node, exact bool) {
	gt := sv.Type().Name()
	declared := map[string]bool{"@context": true}
	for _, f := range vocab.Fields(sv.Type()) {
		if f.Term == "" {
			continue
		}
		fv := sv.Field(f.Index)
		declared[f.Term] = true
		m := n.Get(f.Term)
		switch f.Kind {
		case vocab.KNLV:
			declared[f.Term+"Map"] = true
			nl := fv.Interface().(ap.NaturalLanguageValues)
			var entries []ap.LangRefValue
			for _, e := range nl {
				if len(e.Value) > 0 {
					entries = append(entries, e)
				}
			}
			if len(entries) > 1 {
				// the writer's convention for "no tag" is the nil tag "-"; an entry whose tag is the empty string has no name a
				// language map could give it, it is treated like an entry without text
				var tagged []ap.LangRefValue
				for _, e := range entries {
					if len(e.Ref) > 0 {
						tagged = append(tagged, e)
					}
				}
				entries = tagged
			}
			mm := n.Get(f.Term + "Map")
			switch {
			case len(entries) == 0:
				if m != nil && !isZeroRepr(m) || mm != nil && !isZeroRepr(mm) {
					a.add(gt, f.Name, "extra-member", "", "text member present for an unset property")
				}
			case len(entries) == 1:
				if mm != nil && m == nil && mm.Kind == "object" && len(mm.Members) == 1 {
					// a single tagged value written as a one-entry language map is also correct ActivityStreams
					a.str(gt, f.Name, string(entries[0].Value), mm.Members[0].Val, exact)
					if mm.Members[0].Name != string(entries[0].Ref) {
						a.add(gt, f.Name, "wrong-tag", charClass(string(entries[0].Ref)), fmt.Sprintf("language tag %q written as %q", entries[0].Ref, mm.Members[0].Name))
					}
					break
				}
				a.str(gt, f.Name, string(entries[0].Value), m, exact)
				if mm != nil {
					a.add(gt, f.Name, "extra-member", "", "both the plain term and the Map term are written for a single value")
				}
			default:
				if mm == nil || mm.Kind != "object" {
					a.add(gt, f.Name, "missing", worstClass(nl), fmt.Sprintf("%d language values are not written as a language map under %sMap (got %s; plain member %s)", len(entries), f.Term, nodeDesc(mm), nodeDesc(m)))
					break
				}
				if m != nil && !isZeroRepr(m) {
					a.add(gt, f.Name, "extra-member", "", "plain member written next to the language map")
				}
				seenTag := map[ap.LangRef]bool{}
				for _, e := range entries {
					if utf8.ValidString(string(e.Ref)) && !seenTag[e.Ref] {
						a.str(gt, f.Name+"["+"tag"+"]", string(e.Value), mm.Get(string(e.Ref)), exact)
					}
					seenTag[e.Ref] = true // a JSON object can hold one value per tag: later values under a repeated tag are not looked up
				}
				if len(mm.Members) != len(entries) {
					a.add(gt, f.Name, "map-size", "", fmt.Sprintf("language map has %d members for %d entries", len(mm.Members), len(entries)))
				}
			}
		case vocab.KItem:
			var it ap.Item
			if !fv.IsNil() {
				it = fv.Interface().(ap.Item)
			}
			a.item(gt, f.Name, it, m, exact)
		case vocab.KItems:
			l := fv.Interface().(ap.ItemCollection)
			var it ap.Item
			if len(l) > 0 {
				it = l
			}
			if len(l) == 1 && m != nil && m.Kind == "array" && len(m.Elems) == 1 {
				a.item(gt, f.Name, l[0], m.Elems[0], exact)
			} else {
				a.item(gt, f.Name, it, m, exact)
			}
		case vocab.KTime:
			t := fv.Interface().(time.Time)
			if t.IsZero() {
				if m != nil && !isZeroRepr(m) {
					a.add(gt, f.Name, "extra-member", "", "instant written for an unset property: "+nodeDesc(m))
				}
				break
			}
			if m == nil {
				a.add(gt, f.Name, "missing", "", "set instant is not in the output")
			} else if m.Kind != "string" {
				a.add(gt, f.Name, "wrong-kind", "", "instant written as "+nodeDesc(m))
			} else if p, err := time.Parse(time.RFC3339, m.Str); err != nil {
				a.add(gt, f.Name, "not-rfc3339", "", fmt.Sprintf("%q is not RFC 3339", m.Str))
			} else if !p.Equal(t.Truncate(time.Second)) {
				a.add(gt, f.Name, "wrong-value", "", fmt.Sprintf("instant %s written as %q", t.Format(time.RFC3339Nano), m.Str))
			}
		case vocab.KDur:
			d := time.Duration(fv.Int())
			if d == 0 {
				if m != nil && !isZeroRepr(m) {
					if p, ok := parseXSDDuration(m.Str); !(m.Kind == "string" && ok && p == 0) {
						a.add(gt, f.Name, "extra-member", "", "duration written for an unset property: "+nodeDesc(m))
					}
				}
				break
			}
			if m == nil {
				a.add(gt, f.Name, "missing", "", "set duration is not in the output")
			} else if m.Kind != "string" {
				a.add(gt, f.Name, "wrong-kind", "", "duration written as "+nodeDesc(m))
			} else if p, ok := parseXSDDuration(m.Str); !ok {
				a.add(gt, f.Name, "not-xsd-duration", "", fmt.Sprintf("%q is not an xsd:duration", m.Str))
			} else if p != d {
				a.add(gt, f.Name, "wrong-value", "", fmt.Sprintf("duration %v written as %q", d, m.Str))
			}
		case vocab.KID, vocab.KType, vocab.KMime, vocab.KLangRef, vocab.KIRI, vocab.KString:
			s := fv.String()
			if s == "" {
				if m != nil && !isZeroRepr(m) {
					a.add(gt, f.Name, "extra-member", "", "member present for an unset string property: "+nodeDesc(m))
				}
				break
			}
			a.str(gt, f.Name, s, m, exact)
		case vocab.KUint, vocab.KInt, vocab.KFloat:
			var want float64
			switch f.Kind {
			case vocab.KUint:
				want = float64(fv.Uint())
			case vocab.KInt:
				want = float64(fv.Int())
			default:
				want = fv.Float()
			}
			if m == nil {
				if want != 0 {
					a.add(gt, f.Name, "missing", "", fmt.Sprintf("number %v is not in the output", want))
				}
				break
			}
			if m.Kind != "number" {
				a.add(gt, f.Name, "wrong-kind", "", fmt.Sprintf("number %v written as %s", want, nodeDesc(m)))
			} else if got, err := strconv.ParseFloat(m.Num, 64); err != nil || got != want {
				a.add(gt, f.Name, "wrong-value", "", fmt.Sprintf("number %v written as %s", want, m.Num))
			}
		case vocab.KBool:
			if m == nil {
				if fv.Bool() {
					a.add(gt, f.Name, "missing", "", "true is not in the output")
				}
				break
			}
			if m.Kind != "bool" {
				a.add(gt, f.Name, "wrong-kind", "", fmt.Sprintf("boolean %v written as %s", fv.Bool(), nodeDesc(m)))
			} else if m.Bool != fv.Bool() {
				a.add(gt, f.Name, "wrong-value", "", fmt.Sprintf("boolean %v written as %v", fv.Bool(), m.Bool))
			}
		case vocab.KSource, vocab.KPublicKey:
			if fv.IsZero() || (f.Kind == vocab.KSource && vocab.ShapeNLV(fv.Interface().(ap.Source).Content) == "nl0" && fv.Interface().(ap.Source).MediaType == "") {
				if m != nil && !isZeroRepr(m) {
					a.add(gt, f.Name, "extra-member", "", "member present for an unset property: "+nodeDesc(m))
				}
				break
			}
			if m == nil {
				a.add(gt, f.Name, "missing", worstClass(fv.Interface()), "set property is not in the output")
			} else if m.Kind != "object" {
				a.add(gt, f.Name, "wrong-kind", "", "written as "+nodeDesc(m))
			} else {
				a.structValue(fv, m, exact)
			}
		case vocab.KEndpoints:
			if fv.IsNil() || fv.Elem().IsZero() {
				if m != nil && !isZeroRepr(m) {
					a.add(gt, f.Name, "extra-member", "", "member present for unset endpoints: "+nodeDesc(m))
				}
				break
			}
			if m == nil {
				a.add(gt, f.Name, "missing", "", "set endpoints are not in the output")
			} else if m.Kind != "object" {
				a.add(gt, f.Name, "wrong-kind", "", "written as "+nodeDesc(m))
			} else {
				a.structValue(fv.Elem(), m, exact)
			}
		}
	}
	for _, m := range n.Members {
		if !declared[m.Name] {
			a.add(gt, "*", "undeclared-member", charClass(m.Name), fmt.Sprintf("the output has a member %q which %s does not declare (value %s)", m.Name, gt, nodeDesc(m.Val)))
		}
	}
}

// c02Check encodes x through one writer and runs the output oracle.
func c02Check(writer string, x interface{}) (ds []keyed, out []byte) {
	var b []byte
	var err error
	pi := evSafe(func() {
		if writer == "pkg" {
			b, err = ap.MarshalJSON(x.(ap.Item))
		} else {
			b, err = x.(json.Marshaler).MarshalJSON()
		}
	})
	gt := vocab.GoTypeName(nil)
	if it, ok := x.(ap.Item); ok {
		gt = vocab.GoTypeName(it)
	} else {
		t := reflect.TypeOf(x)
		if t.Kind() == reflect.Ptr {
			t = t.Elem()
		}
		gt = t.Name()
	}
	worst := worstClass(x)
	if pi != nil {
		return []keyed{{fmt.Sprintf("json-out %s panic@%s chars=%s", gt, pi.Frame, worst), pi.Value}}, nil
	}
	if err != nil || len(b) == 0 {
		return nil, b // an error or nothing written: "nothing to say"; whether something should have been said is C01's subject
	}
	root, dups, validUTF8, perr := oracle.ParseJSON(b)
	if perr != nil {
		return []keyed{{fmt.Sprintf("json-out %s invalid-json chars=%s", gt, worst), fmt.Sprintf("%v: %s", perr, clipBytes(b, 500))}}, b
	}
	if !validUTF8 {
		// RFC 8259 section 8.1: JSON text is UTF-8, whatever bytes the value's strings hold
		ds = append(ds, keyed{fmt.Sprintf("json-out %s invalid-utf8-output chars=%s", gt, worst), "the output is not valid UTF-8: " + clipBytes(b, 300)})
	}
	sort.Strings(dups)
	for _, d := range dups {
		// name the member with its parent, so that a repeated language tag (nameMap.en) and a repeated property (id) are different keys
		parts := strings.Split(d, ".")
		name := parts[len(parts)-1]
		if len(parts) >= 2 && strings.HasSuffix(parts[len(parts)-2], "Map") {
			name = parts[len(parts)-2] + "." + name
		}
		ds = append(ds, keyed{fmt.Sprintf("json-out %s dup-member %s chars=%s", gt, name, worst), "an object repeats the member " + d + ": " + clipBytes(b, 400)})
	}
	exact := worst != "nonutf8"
	a := &accounting{}
	switch v := x.(type) {
	case ap.IRI:
		a.str("IRI", "value", string(v), root, exact)
	case ap.IRIs:
		if root.Kind != "array" || len(root.Elems) != len(v) {
			a.add("IRIs", "value", "list-length", worst, fmt.Sprintf("%d IRIs written as %s", len(v), nodeDesc(root)))
		} else {
			for i := range v {
				a.str("IRIs", "value", string(v[i]), root.Elems[i], exact)
			}
		}
	case ap.ItemCollection:
		var it ap.Item = v
		if len(v) == 1 && root.Kind == "array" {
			a.item("ItemCollection", "value", v[0], root.Elems[0], exact)
		} else {
			a.item("ItemCollection", "value", it, root, exact)
		}
	case ap.ActivityVocabularyType:
		a.str("ActivityVocabularyType", "value", string(v), root, exact)
	case ap.MimeType:
		a.str("MimeType", "value", string(v), root, exact)
	case ap.LangRefValue:
		// a lone language value: a JSON string holding the text, or a one-member object {tag: text}
		if root.Kind == "object" && len(root.Members) == 1 {
			a.str("LangRefValue", "value", string(v.Value), root.Members[0].Val, exact)
		} else {
			a.str("LangRefValue", "value", string(v.Value), root, exact)
		}
	case ap.NaturalLanguageValues:
		fake := struct {
			Name ap.NaturalLanguageValues `jsonld:"name"`
		}{v}
		_ = fake
		var entries []ap.LangRefValue
		for _, e := range v {
			if len(e.Value) > 0 {
				entries = append(entries, e)
			}
		}
		if len(entries) > 1 {
			var tagged []ap.LangRefValue
			for _, e := range entries {
				if len(e.Ref) > 0 {
					tagged = append(tagged, e)
				}
			}
			entries = tagged
		}
		if len(entries) == 1 && root.Kind == "object" && len(root.Members) == 1 {
			a.str("NaturalLanguageValues", "value", string(entries[0].Value), root.Members[0].Val, exact)
		} else if len(entries) == 1 {
			a.str("NaturalLanguageValues", "value", string(entries[0].Value), root, exact)
		} else if root.Kind != "object" {
			a.add("NaturalLanguageValues", "value", "wrong-kind", worst, "language values written as "+nodeDesc(root))
		} else {
			for _, e := range entries {
				a.str("NaturalLanguageValues", "value[tag]", string(e.Value), root.Get(string(e.Ref)), exact)
			}
		}
	default:
		rv := reflect.ValueOf(x)
		if rv.Kind() == reflect.Ptr {
			rv = rv.Elem()
		}
		if rv.Kind() == reflect.Struct {
			if root.Kind != "object" {
				a.add(gt, "*", "wrong-kind", worst, "a "+gt+" is written as "+nodeDesc(root))
			} else {
				a.structValue(rv, root, exact)
			}
		}
	}
	return append(ds, a.ds...), b
}

// hostile constants for string positions
var c02Hostile = []string{
	``, `"`, `\`, `a"b`, `a\b`, `a\"b`, `"leading`, `trailing"`, `trailing\`, `\\`, `\n`, "line\nfeed", "tab\there", "nul\x00byte", "\x1f", "\x7f", "cr\rlf\n",
	`","type":"Delete`, `","id":"https://evil.example/x`, `"},{"type":"Note`, `"]`, `\","x":"`, `\u0041`, `\ud800`, "\u2028", "\u2029", "😀", "é", "\ufffd",
	"\xff", "a\xc3", "\xed\xa0\x80", `{"a":"b"}`, `[1,2]`, `null`, `true`, `42`, `"q"`, `C:\new\table`, `</script>`, `&amp;`, ` `, `a b`,
}

func hostileIRI(h string) string { return "https://example.com/p/" + h }

// c02Position is one string-typed position of the vocabulary: mk builds a value holding h there.
type c02Position struct {
	name string
	mk   func(h string) interface{}
}

// c02Positions enumerates the string-typed positions (hostile layer, FuzzC02).
func c02Positions() []c02Position {
	id := ap.IRI("https://example.com/top")
	return []c02Position{
		{"Object.ID", func(h string) interface{} { return &ap.Object{ID: ap.IRI(hostileIRI(h)), Type: ap.NoteType} }},
		{"Object.ID-raw", func(h string) interface{} { return &ap.Object{ID: ap.IRI(h), Type: ap.NoteType} }},
		{"nested.ID", func(h string) interface{} {
			return &ap.Activity{ID: id, Type: ap.CreateType, Object: &ap.Object{ID: ap.IRI(hostileIRI(h)), Type: ap.NoteType}}
		}},
		{"item-iri", func(h string) interface{} {
			return &ap.Object{ID: id, Type: ap.NoteType, AttributedTo: ap.IRI(hostileIRI(h))}
		}},
		{"list-iri", func(h string) interface{} {
			return &ap.Object{ID: id, Type: ap.NoteType, To: ap.ItemCollection{ap.IRI("https://example.com/a"), ap.IRI(hostileIRI(h))}}
		}},
		{"Object.Type", func(h string) interface{} { return &ap.Object{ID: id, Type: ap.ActivityVocabularyType(h)} }},
		{"Tombstone.FormerType", func(h string) interface{} {
			return &ap.Tombstone{ID: id, Type: ap.TombstoneType, FormerType: ap.ActivityVocabularyType(h)}
		}},
		{"Object.MediaType", func(h string) interface{} { return &ap.Object{ID: id, Type: ap.NoteType, MediaType: ap.MimeType(h)} }},
		{"Source.MediaType", func(h string) interface{} {
			return &ap.Object{ID: id, Type: ap.NoteType, Source: ap.Source{MediaType: ap.MimeType(h), Content: ap.DefaultNaturalLanguageValue("src")}}
		}},
		{"Link.Href", func(h string) interface{} { return &ap.Link{Type: ap.LinkType, Href: ap.IRI(hostileIRI(h))} }},
		{"Link.Rel", func(h string) interface{} {
			return &ap.Link{Type: ap.LinkType, Href: "https://example.com/h", Rel: ap.IRI(hostileIRI(h))}
		}},
		{"Link.HrefLang", func(h string) interface{} {
			return &ap.Link{Type: ap.LinkType, Href: "https://example.com/h", HrefLang: ap.LangRef(h)}
		}},
		{"Place.Units", func(h string) interface{} { return &ap.Place{ID: id, Type: ap.PlaceType, Units: h} }},
		{"PublicKey.Owner", func(h string) interface{} {
			return &ap.Actor{ID: id, Type: ap.PersonType, PublicKey: ap.PublicKey{ID: "https://example.com/key", Owner: ap.IRI(hostileIRI(h)), PublicKeyPem: "PEM"}}
		}},
		{"PublicKey.ID", func(h string) interface{} {
			return &ap.Actor{ID: id, Type: ap.PersonType, PublicKey: ap.PublicKey{ID: ap.IRI(hostileIRI(h)), PublicKeyPem: "PEM"}}
		}},
		{"PublicKey.PublicKeyPem", func(h string) interface{} {
			return &ap.Actor{ID: id, Type: ap.PersonType, PublicKey: ap.PublicKey{ID: "https://example.com/key", PublicKeyPem: "-----BEGIN-----\n" + h + "\n-----END-----"}}
		}},
		{"Endpoints.SharedInbox", func(h string) interface{} {
			return &ap.Actor{ID: id, Type: ap.PersonType, Endpoints: &ap.Endpoints{SharedInbox: ap.IRI(hostileIRI(h))}}
		}},
		{"Name.text", func(h string) interface{} {
			return &ap.Object{ID: id, Type: ap.NoteType, Name: ap.DefaultNaturalLanguageValue(h)}
		}},
		{"Content.text-tagged", func(h string) interface{} {
			return &ap.Object{ID: id, Type: ap.NoteType, Content: ap.NaturalLanguageValues{{Ref: "en", Value: ap.Content(h)}}}
		}},
		{"Summary.text-map", func(h string) interface{} {
			return &ap.Object{ID: id, Type: ap.NoteType, Summary: ap.NaturalLanguageValues{{Ref: "en", Value: ap.Content(h)}, {Ref: "fr", Value: ap.Content("bonjour")}}}
		}},
		{"Name.tag-map", func(h string) interface{} {
			return &ap.Object{ID: id, Type: ap.NoteType, Name: ap.NaturalLanguageValues{{Ref: ap.LangRef(h), Value: ap.Content("x")}, {Ref: "fr", Value: ap.Content("bonjour")}}}
		}},
		{"Name.map-with-niltag", func(h string) interface{} {
			return &ap.Object{ID: id, Type: ap.NoteType, Name: ap.NaturalLanguageValues{{Ref: ap.NilLangRef, Value: ap.Content(h)}, {Ref: "fr", Value: ap.Content("bonjour")}}}
		}},
		{"Name.map-niltag-last", func(h string) interface{} {
			return &ap.Object{ID: id, Type: ap.NoteType, Name: ap.NaturalLanguageValues{{Ref: "en", Value: ap.Content(h)}, {Ref: ap.NilLangRef, Value: ap.Content("bonjour")}}}
		}},
		{"Name.map-repeated-tag", func(h string) interface{} {
			return &ap.Object{ID: id, Type: ap.NoteType, Name: ap.NaturalLanguageValues{{Ref: "en", Value: ap.Content(h)}, {Ref: "en", Value: ap.Content("second")}, {Ref: "fr", Value: ap.Content("bonjour")}}}
		}},
		{"PreferredUsername.text", func(h string) interface{} {
			return &ap.Actor{ID: id, Type: ap.PersonType, PreferredUsername: ap.DefaultNaturalLanguageValue(h)}
		}},
		{"Source.Content.text", func(h string) interface{} {
			return &ap.Object{ID: id, Type: ap.NoteType, Source: ap.Source{MediaType: "text/plain", Content: ap.DefaultNaturalLanguageValue(h)}}
		}},
		{"Link.Name.text", func(h string) interface{} {
			return &ap.Link{Type: ap.MentionType, Href: "https://example.com/h", Name: ap.DefaultNaturalLanguageValue(h)}
		}},
		{"IRI", func(h string) interface{} { return ap.IRI(hostileIRI(h)) }},
		{"IRIs", func(h string) interface{} { return ap.IRIs{"https://example.com/a", ap.IRI(hostileIRI(h))} }},
		{"ItemCollection", func(h string) interface{} {
			return ap.ItemCollection{ap.IRI(hostileIRI(h)), &ap.Object{ID: ap.IRI(hostileIRI(h) + "/2"), Type: ap.NoteType}}
		}},
		{"ActivityVocabularyType", func(h string) interface{} { return ap.ActivityVocabularyType(h) }},
		{"MimeType", func(h string) interface{} { return ap.MimeType(h) }},
		{"NaturalLanguageValues", func(h string) interface{} { return ap.DefaultNaturalLanguageValue(h) }},
		{"NaturalLanguageValues-map", func(h string) interface{} {
			return ap.NaturalLanguageValues{{Ref: "en", Value: ap.Content(h)}, {Ref: "de", Value: ap.Content("hallo")}}
		}},
		{"LangRefValue-untagged", func(h string) interface{} { return ap.LangRefValue{Ref: ap.NilLangRef, Value: ap.Content(h)} }},
		{"LangRefValue-tagged", func(h string) interface{} { return ap.LangRefValue{Ref: "en", Value: ap.Content(h)} }},
		{"Source", func(h string) interface{} {
			return ap.Source{MediaType: ap.MimeType(h), Content: ap.DefaultNaturalLanguageValue(h)}
		}},
		{"PublicKey", func(h string) interface{} {
			return ap.PublicKey{ID: ap.IRI(hostileIRI(h)), Owner: ap.IRI(hostileIRI(h)), PublicKeyPem: h}
		}},
		{"Endpoints", func(h string) interface{} { return ap.Endpoints{SharedInbox: ap.IRI(hostileIRI(h))} }},
	}
}

func TestC02(t *testing.T) {
	r := ev.Open(t, "C02")
	defer r.Close(t)
	r.Rule("cells: the benign single-cell values of C01 (every type x field x shape) and one everything-set value per type through every MarshalJSON method and package MarshalJSON; hostile: every string-typed " +
		"position (ids, IRIs in item and list positions, href, rel, owner, key id, type, formerType, media types, language tags, hrefLang, units, key material, natural-language text single and map) x 40 hostile " +
		"constants (quotes, backslashes, control characters, invalid UTF-8, JSON fragments, injection payloads); default-lang: the text cells again with the package variable DefaultLang set to en / fr; empties: lists of up to 3 members drawn from {IRI, object, empty object, empty link, empty IRI, nil, nil pointer, empty list} in 5 list properties and, up to 2 members, in every item/list property of every type whose other properties are all set (valid JSON, no repeated name, exactly the members that have something to say); random: values with several hostile strings. Oracle: independent tokenizer (one valid JSON value, " +
		"no repeated member names) + accounting walk of value and tree together by the jsonld tags (term, JSON kind, RFC 3339, xsd:duration by an independent parser, every string decodes to exactly the bytes " +
		"held, no undeclared or unaccounted member). non-trivial = the value holds a string that needs escaping or a non-string kind; distinct by writer + canonical dump")
	r.Assume("for byte strings that are not valid UTF-8 only validity, no duplicate member and no undeclared member are asserted (exact decoding is impossible in JSON)")

	if r.WantLayer("cells", true) {
		cells, _ := vocab.SingleCells(false)
		cells = append(cells, vocab.AnonymousCells(false)...)
		done := 0
		for _, w := range []string{"pkg", "method"} {
			for _, c := range cells {
				id := w + " " + c.ID
				if !r.WantCell(id) {
					continue
				}
				done++
				ds, _ := c02Check(w, c.Value)
				nonString := c.Field.Kind != vocab.KNLV && c.Field.Kind != vocab.KString && c.Field.Kind != vocab.KMime
				r.Case(id+vocab.Dump(c.Value), nonString, "cells writer="+w, "cells kind="+string(c.Field.Kind))
				if done%211 == 0 {
					r.Sample(id, map[string]interface{}{"layer": "cells", "writer": w, "cell": c.ID, "value": vocab.Dump(c.Value)})
				}
				reportAll(r, "cells", id, ds, vocab.Dump(c.Value))
			}
			for _, st := range vocab.StructTypes {
				id := w + " everything " + st.Name()
				if !r.WantCell(id) {
					continue
				}
				done++
				x := vocab.Everything(st, false)
				ds, _ := c02Check(w, x)
				r.Case(id, true, "cells everything")
				reportAll(r, "cells", id, ds, vocab.Dump(x))
			}
		}
		r.Cells(2*(len(cells)+len(vocab.StructTypes)), done)
		r.Exhaustive("cells", !r.Replaying())
	}

	// ---- the same text cells with the package's configurable default language set to a real tag: what the writers emit is a matter
	// of the value, not of a setting meant for the convenience constructors
	if r.WantLayer("default-lang", true) {
		cells, _ := vocab.SingleCells(false)
		saved := ap.DefaultLang
		done, total := 0, 0
		for _, dl := range []ap.LangRef{"en", "fr"} {
			ap.DefaultLang = dl
			for _, c := range cells {
				if c.Field.Kind != vocab.KNLV {
					continue
				}
				for _, w := range []string{"pkg", "method"} {
					total++
					id := fmt.Sprintf("DefaultLang=%s %s %s", dl, w, c.ID)
					if !r.WantCell(id) {
						continue
					}
					done++
					ds, _ := c02Check(w, c.Value)
					for k := range ds {
						ds[k].Key += " default-lang"
					}
					r.Case(id, true, "default-lang")
					reportAll(r, "default-lang", id, ds, vocab.Dump(c.Value))
				}
			}
		}
		ap.DefaultLang = saved
		r.Cells(total, done)
		r.Exhaustive("default-lang", !r.Replaying())
	}

	// ---- hostile enumeration: position x constant
	positions := c02Positions()
	id := ap.IRI("https://example.com/top")
	if r.WantLayer("hostile", true) {
		total, done := 0, 0
		for _, p := range positions {
			for _, h := range c02Hostile {
				for _, w := range []string{"method", "pkg"} {
					x := p.mk(h)
					if _, isItem := x.(ap.Item); !isItem && w == "pkg" {
						continue
					}
					if _, ok := x.(json.Marshaler); !ok {
						continue
					}
					total++
					cell := fmt.Sprintf("%s %s %q", w, p.name, h)
					if !r.WantCell(cell) {
						continue
					}
					done++
					ds, out := c02Check(w, x)
					cls := charClass(h)
					r.Case(cell, cls != "benign", "hostile position="+p.name, "hostile chars="+cls)
					if done%173 == 0 {
						r.Sample(cell, map[string]interface{}{"layer": "hostile", "writer": w, "position": p.name, "string": h, "output": string(out)})
					}
					reportAll(r, "hostile", cell, ds, map[string]interface{}{"position": p.name, "string": h, "output": string(out)})
				}
			}
		}
		r.Cells(total, done)
		r.Exhaustive("hostile", !r.Replaying())
	}

	// ---- members that have nothing to say: lists mixing real members with empty objects, empty links, empty IRIs and nil pointers
	if r.WantLayer("empties", true) {
		type member struct {
			name string
			mk   func() ap.Item
			id   string // "" = writes nothing
		}
		alphabet := []member{
			{"iri", func() ap.Item { return ap.IRI("https://example.com/a") }, "https://example.com/a"},
			{"obj", func() ap.Item { return &ap.Object{ID: "https://example.com/o", Type: ap.NoteType} }, "https://example.com/o"},
			{"empty-object", func() ap.Item { return &ap.Object{} }, ""},
			{"empty-link", func() ap.Item { return &ap.Link{} }, ""},
			{"empty-iri", func() ap.Item { return ap.IRI("") }, ""},
			{"nil", func() ap.Item { return nil }, ""},
			{"nil-pointer", func() ap.Item { return (*ap.Object)(nil) }, ""},
			{"empty-list", func() ap.Item { return ap.ItemCollection{} }, ""},
		}
		var combos [][]int
		var build func(cur []int)
		build = func(cur []int) {
			if len(cur) > 0 {
				combos = append(combos, append([]int{}, cur...))
			}
			if len(cur) == 3 {
				return
			}
			for k := range alphabet {
				build(append(cur, k))
			}
		}
		build(nil)
		holders := []struct {
			name string
			mk   func(l ap.ItemCollection) interface{}
			term string
		}{
			{"Object.Tag", func(l ap.ItemCollection) interface{} { return &ap.Object{ID: id, Type: ap.NoteType, Tag: l} }, "tag"},
			{"Object.To", func(l ap.ItemCollection) interface{} { return &ap.Object{ID: id, Type: ap.NoteType, To: l} }, "to"},
			{"Object.Audience", func(l ap.ItemCollection) interface{} { return &ap.Object{ID: id, Type: ap.NoteType, Audience: l} }, "audience"},
			{"Object.Attachment", func(l ap.ItemCollection) interface{} { return &ap.Object{ID: id, Type: ap.NoteType, Attachment: l} }, "attachment"},
			{"OrderedCollection.OrderedItems", func(l ap.ItemCollection) interface{} {
				return &ap.OrderedCollection{ID: id, Type: ap.OrderedCollectionType, OrderedItems: l}
			}, "orderedItems"},
			{"ItemCollection", func(l ap.ItemCollection) interface{} { return l }, ""},
		}
		verify := func(cell, hname, term string, x interface{}, names, wantIDs []string, nMembers, done int) {
			var b []byte
			var err error
			pi := evSafe(func() { b, err = x.(json.Marshaler).MarshalJSON() })
			r.Case(cell, len(wantIDs) < nMembers, "empties holder="+hname)
			if done%499 == 0 {
				r.Sample(cell, map[string]interface{}{"layer": "empties", "holder": hname, "members": names, "output": string(b)})
			}
			key := "json-out empties " + hname + " "
			switch {
			case pi != nil:
				r.Report("empties", cell, key+"panic@"+pi.Frame, pi.Value, cell)
				return
			case err != nil:
				return
			case len(b) == 0:
				// nothing was written: right for a list whose members all say nothing, not for a value that has an id
				if it, isItem := x.(ap.Item); isItem && !ap.IsNil(it) && !it.IsCollection() && len(it.GetLink()) > 0 {
					r.Report("empties", cell, key+"nothing-written", fmt.Sprintf("a value with the id %s was written as nothing", it.GetLink()), cell)
				}
				return
			}
			root, dups, _, perr := oracle.ParseJSON(b)
			if perr != nil {
				r.Report("empties", cell, key+"invalid-json", fmt.Sprintf("%v: %s", perr, b), cell)
				return
			}
			if len(dups) > 0 {
				r.Report("empties", cell, key+"dup-member", string(b), cell)
			}
			node := root
			if term != "" {
				node = root.Get(term)
			}
			var gotIDs []string
			collect := func(n *oracle.Node) {
				switch {
				case n == nil:
				case n.Kind == "string":
					gotIDs = append(gotIDs, n.Str)
				case n.Kind == "object":
					if idn := n.Get("id"); idn != nil {
						gotIDs = append(gotIDs, idn.Str)
					} else {
						gotIDs = append(gotIDs, "<object without id>")
					}
				default:
					gotIDs = append(gotIDs, "<"+n.Kind+">")
				}
			}
			if node != nil && node.Kind == "array" {
				for _, e := range node.Elems {
					collect(e)
				}
			} else {
				collect(node)
			}
			if strings.Contains(hname, "IRIs") {
				// an empty IRI in a list of IRIs may be written as the empty string or left out: both are what the list holds
				var g2 []string
				for _, g := range gotIDs {
					if g != "" {
						g2 = append(g2, g)
					}
				}
				gotIDs = g2
			}
			if strings.Join(gotIDs, " ") != strings.Join(wantIDs, " ") {
				r.Report("empties", cell, key+"members", fmt.Sprintf("written members %v, the list's members that have something to say are %v: %s", gotIDs, wantIDs, b), cell)
			}
		}
		total, done := 0, 0
		for _, h := range holders {
			for _, cb := range combos {
				total++
				var names, wantIDs []string
				l := ap.ItemCollection{}
				for _, k := range cb {
					l = append(l, alphabet[k].mk())
					names = append(names, alphabet[k].name)
					if alphabet[k].id != "" {
						wantIDs = append(wantIDs, alphabet[k].id)
					}
				}
				cell := h.name + " [" + strings.Join(names, ",") + "]"
				if !r.WantCell(cell) {
					continue
				}
				done++
				verify(cell, h.name, h.term, h.mk(l), names, wantIDs, len(cb), done)
			}
		}
		// lists of IRIs under their own type (what ItemCollection.IRIs() hands out, with an empty IRI in the place of a nil member): on their
		// own, in an item property, as a member of a list property
		{
			seqs := [][]string{{""}, {"", "A"}, {"A", ""}, {"A", "", "B"}, {"", "", "A"}, {"A", "", ""}, {"", "A", ""}, {"A", "B"}, {"-", "A"}}
			for si, sq := range seqs {
				var iris ap.IRIs
				var wantIDs []string
				for _, x := range sq {
					switch x {
					case "A":
						iris = append(iris, "https://example.com/a")
						wantIDs = append(wantIDs, "https://example.com/a")
					case "B":
						iris = append(iris, "https://example.com/b")
						wantIDs = append(wantIDs, "https://example.com/b")
					default:
						iris = append(iris, ap.IRI(x))
						if x == "-" {
							wantIDs = append(wantIDs, "-")
						}
					}
				}
				for hi, x := range []interface{}{iris, &ap.Object{ID: id, Type: ap.NoteType, InReplyTo: iris}, &ap.Activity{ID: id, Type: ap.CreateType, Object: iris, Actor: ap.IRI("https://example.com/actor")}} {
					total++
					hname := []string{"IRIs", "Object.InReplyTo=IRIs", "Activity.Object=IRIs"}[hi]
					cell := fmt.Sprintf("%s %q", hname, sq)
					if !r.WantCell(cell) {
						continue
					}
					done++
					verify(cell, hname, []string{"", "inReplyTo", "object"}[hi], x, sq, wantIDs, len(sq), done)
					_ = si
				}
			}
		}
		// the same for every item-typed and list-typed property of every type, the value holding everything else its type can hold:
		// whatever follows a property that turned out to have nothing to say still has to be joined correctly
		// ... and the value holding nothing else but its id and type: a property that has nothing to say takes nothing away from what
		// was written before it
		for _, base := range []string{"rest", "alone"} {
			for _, st := range vocab.StructTypes {
				x := vocab.Everything(st, false)
				if base == "alone" {
					p := reflect.New(st)
					p.Elem().FieldByName("ID").SetString("https://example.com/alone")
					p.Elem().FieldByName("Type").SetString(string(vocab.DefaultType[st.Name()]))
					x = p.Interface().(ap.Item)
				}
				for _, f := range vocab.Fields(st) {
					if f.Kind != vocab.KItem && f.Kind != vocab.KItems {
						continue
					}
					fv := reflect.ValueOf(x).Elem().Field(f.Index)
					orig := reflect.New(fv.Type()).Elem()
					orig.Set(fv)
					for _, cb := range combos {
						fv.Set(orig)
						if len(cb) > 2 {
							continue
						}
						total++
						var names, wantIDs []string
						l := ap.ItemCollection{}
						for _, k := range cb {
							l = append(l, alphabet[k].mk())
							names = append(names, alphabet[k].name)
							if alphabet[k].id != "" {
								wantIDs = append(wantIDs, alphabet[k].id)
							}
						}
						hname := st.Name() + "." + f.Name + "+" + base
						cell := hname + " [" + strings.Join(names, ",") + "]"
						if !r.WantCell(cell) {
							continue
						}
						done++
						switch {
						case f.Kind == vocab.KItems:
							fv.Set(reflect.ValueOf(l))
						case len(l) == 1 && l[0] == nil:
							fv.Set(reflect.Zero(fv.Type()))
						case len(l) == 1:
							fv.Set(reflect.ValueOf(l[0]))
						default:
							fv.Set(reflect.ValueOf(l))
						}
						verify(cell, hname, f.Term, x, names, wantIDs, len(cb), done)
					}
					fv.Set(orig)
				}
			}
		}
		r.Cells(total, done)
		r.Exhaustive("empties", !r.Replaying())
	}

	// ---- saved fuzz inputs (replays of FuzzC02 crashers)
	if r.WantLayer("corpus", true) {
		n := 0
		for _, f := range fuzzFiles("FuzzC02", "C02") {
			args, ok := readFuzzArgs(f)
			if !ok || len(args) != 2 || !r.WantCell(filepath.Base(f)) {
				continue
			}
			n++
			pos, _ := args[0].(uint64)
			h, _ := args[1].(string)
			ds := c02FuzzOne(uint8(pos), h)
			r.Case("corpus "+filepath.Base(f), true, "corpus")
			reportAll(r, "corpus", filepath.Base(f), ds, map[string]interface{}{"position": pos, "string": h})
		}
		r.Cells(n, n)
	}

	hostileG := rapid.OneOf(rapid.SampledFrom(c02Hostile), rapid.StringOfN(rapid.RuneFrom([]rune("\"\\/bfnrtu0123456789{}[]:, \x00\x01\x1f\x7f\u2028\u2029😀aé")), 1, 20, -1), rapid.String(),
		rapid.Map(rapid.SliceOfN(rapid.Byte(), 1, 12), func(b []byte) string { return string(b) }))
	r.Rapid(t, "random", r.Pick(3000, 20000), func(t *rapid.T) {
		depth := rapid.IntRange(0, 2).Draw(t, "depth")
		hostileEvery := rapid.IntRange(2, 6).Draw(t, "hostile-every")
		n := 0
		pick := func(t *rapid.T) string {
			n++
			if n%hostileEvery == 0 {
				return hostileG.Draw(t, "hostile")
			}
			return "plain text"
		}
		g := vocab.NewGen(t, vocab.Opts{MaxDepth: depth, Text: pick, Str: pick, MaxNodes: 10})
		gt := rapid.SampledFrom(goTypeNames).Draw(t, "gotype")
		x := g.Value(gt, depth, false)
		// a hostile id / type / media type now and then
		sv, _ := vocab.StructOf(x)
		switch rapid.IntRange(0, 5).Draw(t, "hostile-core") {
		case 0:
			sv.FieldByName("ID").SetString(hostileIRI(hostileG.Draw(t, "id")))
		case 1:
			sv.FieldByName("Type").SetString(hostileG.Draw(t, "type"))
		case 2:
			sv.FieldByName("MediaType").SetString(hostileG.Draw(t, "mime"))
		}
		w := rapid.SampledFrom([]string{"pkg", "method"}).Draw(t, "writer")
		dump := vocab.Dump(x)
		ds, out := c02Check(w, x)
		cls := worstClass(x)
		r.Case(w+" "+dump, cls != "benign" || vocab.FeaturesOf(x).SetProps > 0, "random chars="+cls, "random type="+gt)
		r.Sample(dump, map[string]interface{}{"layer": "random", "writer": w, "value": dump})
		failUnknown(r, t, "random", ds, map[string]interface{}{"writer": w, "value": dump, "output": string(out)})
	})
}

// c02FuzzOne places one string at one position and runs the output oracle through the writers that apply.
func c02FuzzOne(pos uint8, h string) (ds []keyed) {
	ps := c02Positions()
	p := ps[int(pos)%len(ps)]
	for _, w := range []string{"method", "pkg"} {
		x := p.mk(h)
		if _, isItem := x.(ap.Item); !isItem && w == "pkg" {
			continue
		}
		if _, ok := x.(json.Marshaler); !ok {
			continue
		}
		d, _ := c02Check(w, x)
		ds = append(ds, d...)
	}
	return ds
}

// FuzzC02 is the native coverage-guided target (thorough tier): a selector picks the string-typed position, the string is the input.
func FuzzC02(f *testing.F) {
	for i := range c02Positions() {
		f.Add(uint8(i), c02Hostile[(i*5)%len(c02Hostile)])
		f.Add(uint8(i), c02Hostile[(i*5+3)%len(c02Hostile)])
	}
	known := ev.LoadFindings("C02")
	f.Fuzz(func(t *testing.T, pos uint8, h string) {
		if len(h) > 1<<12 {
			return
		}
		for _, d := range c02FuzzOne(pos, h) {
			if known.Peek(d.Key) {
				continue
			}
			t.Fatalf("VIOLATION-KEY property=C02 key=%q detail=%q", d.Key, d.Detail)
		}
	})
}
