package props

import (
	"encoding/json"
	"fmt"
	"reflect"
	"strings"
	"testing"

	ap "github.com/go-ap/activitypub"
	"github.com/valyala/fastjson"
	"verif/harness/ev"
	"verif/harness/vocab"
)

// C07 — Every vocabulary type name maps to one Go type, consistently everywhere.

const c07Foreign = "Emoji"

var c07Entries = []string{"registry", "json-top", "json-item", "json-list", "json-list-after-unknown", "json-list-after-untyped", "json-list-bare", "gob-top", "gob-nested", "json-typeonly", "gob-top-typeonly", "gob-nested-typeonly"}

// marker properties written into the document / value for one vocabulary name
type c07Markers struct {
	id      string
	summary string
	spec    string // name of the type-specific marker
}

var c07ActivityTerms = []string{"actor", "target", "result", "origin", "instrument"}

// c07Doc builds the JSON document for a name: id, type, summary and one type-specific marker, written by encoding/json.
func c07Doc(name string, ti vocab.TypeInfo, known bool) map[string]interface{} {
	d := map[string]interface{}{"id": "https://example.com/things/" + strings.ToLower(name), "summary": "marker summary"}
	if name != "" {
		d["type"] = name
	}
	d["name"] = "marker name"
	if !known {
		return d
	}
	switch ti.GoType {
	case "Place":
		d["latitude"] = 12.5
		d["altitude"] = -430.5
	case "Profile":
		d["describes"] = "https://example.com/described"
	case "Tombstone":
		d["formerType"] = "Note"
	case "Relationship":
		d["subject"] = "https://example.com/subject"
	case "Question":
		d["oneOf"] = []interface{}{"https://example.com/opt/1", "https://example.com/opt/2"}
		d["anyOf"] = "https://example.com/any/only" // a list property holding one item, written as the item
	case "Collection", "CollectionPage", "OrderedCollection", "OrderedCollectionPage":
		d["totalItems"] = 7
		if ti.GoType == "OrderedCollectionPage" {
			d["startIndex"] = 3
		}
	case "Link":
		d["href"] = "https://example.com/href"
		d["rel"] = "canonical" // a registered relation name, not a URL: what was written is what arrives
		delete(d, "summary")
		d["name"] = "marker summary"
	case "Actor":
		d["inbox"] = "https://example.com/inbox"
	case "Activity":
		d["object"] = "https://example.com/object"
	case "IntransitiveActivity":
		d["actor"] = "https://example.com/actor"
	}
	// every activity carries all of its own properties, each with its own value: which is which must survive the shared struct prefix
	switch ti.GoType {
	case "Activity", "IntransitiveActivity", "Question":
		for _, term := range c07ActivityTerms {
			d[term] = "https://example.com/" + term
		}
	}
	return d
}

// c07Value builds the same thing as a Go value of the ground-truth type (for the gob entry points).
func c07Value(name string, ti vocab.TypeInfo) ap.Item {
	p := reflect.New(vocab.StructType(ti.GoType))
	v := p.Elem()
	v.FieldByName("ID").SetString("https://example.com/things/" + strings.ToLower(name))
	v.FieldByName("Type").SetString(name)
	if ti.GoType == "Link" {
		v.FieldByName("Name").Set(reflect.ValueOf(ap.DefaultNaturalLanguageValue("marker summary")))
	} else {
		v.FieldByName("Summary").Set(reflect.ValueOf(ap.DefaultNaturalLanguageValue("marker summary")))
		v.FieldByName("Name").Set(reflect.ValueOf(ap.DefaultNaturalLanguageValue("marker name")))
	}
	setItem := func(f string, it ap.Item) { v.FieldByName(f).Set(reflect.ValueOf(&it).Elem()) }
	switch ti.GoType {
	case "Place":
		v.FieldByName("Latitude").SetFloat(12.5)
		v.FieldByName("Altitude").SetFloat(-430.5)
	case "Profile":
		setItem("Describes", ap.IRI("https://example.com/described"))
	case "Tombstone":
		v.FieldByName("FormerType").SetString("Note")
	case "Relationship":
		setItem("Subject", ap.IRI("https://example.com/subject"))
	case "Question":
		setItem("OneOf", ap.ItemCollection{ap.IRI("https://example.com/opt/1"), ap.IRI("https://example.com/opt/2")})
		setItem("AnyOf", ap.IRI("https://example.com/any/only"))
	case "Collection", "CollectionPage", "OrderedCollection", "OrderedCollectionPage":
		v.FieldByName("TotalItems").SetUint(7)
		if ti.GoType == "OrderedCollectionPage" {
			v.FieldByName("StartIndex").SetUint(3)
		}
	case "Link":
		v.FieldByName("Href").SetString("https://example.com/href")
		v.FieldByName("Rel").SetString("canonical")
	case "Actor":
		setItem("Inbox", ap.IRI("https://example.com/inbox"))
	case "Activity":
		setItem("Object", ap.IRI("https://example.com/object"))
	case "IntransitiveActivity":
		setItem("Actor", ap.IRI("https://example.com/actor"))
	}
	switch ti.GoType {
	case "Activity", "IntransitiveActivity", "Question":
		for _, term := range c07ActivityTerms {
			setItem(strings.ToUpper(term[:1])+term[1:], ap.IRI("https://example.com/"+term))
		}
	}
	return p.Interface().(ap.Item)
}

// c07Markers checks id + two markers on a decoded value.
func c07CheckMarkers(it ap.Item, name string, ti vocab.TypeInfo) string {
	sv, ok := vocab.StructOf(it)
	if !ok {
		return "not a struct value"
	}
	if got := sv.FieldByName("ID").String(); got != "https://example.com/things/"+strings.ToLower(name) {
		return fmt.Sprintf("id = %q", got)
	}
	txtField := "Summary"
	if ti.GoType == "Link" {
		txtField = "Name"
	}
	nl := sv.FieldByName(txtField).Interface().(ap.NaturalLanguageValues)
	if len(nl) != 1 || string(nl[0].Value) != "marker summary" {
		return fmt.Sprintf("%s = %v", txtField, nl)
	}
	if ti.GoType != "Link" {
		if nm := sv.FieldByName("Name").Interface().(ap.NaturalLanguageValues); len(nm) != 1 || string(nm[0].Value) != "marker name" {
			return fmt.Sprintf("name = %v", nm)
		}
	}
	link := func(f string) string {
		x := sv.FieldByName(f)
		if !x.IsValid() || x.IsNil() {
			return "<unset>"
		}
		return string(x.Interface().(ap.Item).GetLink())
	}
	bad := ""
	switch ti.GoType {
	case "Place":
		if sv.FieldByName("Latitude").Float() != 12.5 {
			bad = fmt.Sprintf("latitude = %v", sv.FieldByName("Latitude").Float())
		} else if sv.FieldByName("Altitude").Float() != -430.5 {
			bad = fmt.Sprintf("altitude = %v", sv.FieldByName("Altitude").Float())
		}
	case "Profile":
		if link("Describes") != "https://example.com/described" {
			bad = "describes = " + link("Describes")
		}
	case "Tombstone":
		if sv.FieldByName("FormerType").String() != "Note" {
			bad = "formerType = " + sv.FieldByName("FormerType").String()
		}
	case "Relationship":
		if link("Subject") != "https://example.com/subject" {
			bad = "subject = " + link("Subject")
		}
	case "Question":
		x := sv.FieldByName("OneOf")
		if x.IsNil() {
			bad = "oneOf unset"
		} else if l, ok := x.Interface().(ap.ItemCollection); !ok || len(l) != 2 {
			bad = "oneOf = " + vocab.Dump(x.Interface())
		} else if link("AnyOf") != "https://example.com/any/only" {
			bad = "anyOf = " + link("AnyOf")
		}
	case "Collection", "CollectionPage", "OrderedCollection", "OrderedCollectionPage":
		if sv.FieldByName("TotalItems").Uint() != 7 {
			bad = fmt.Sprintf("totalItems = %d", sv.FieldByName("TotalItems").Uint())
		} else if ti.GoType == "OrderedCollectionPage" && sv.FieldByName("StartIndex").Uint() != 3 {
			bad = fmt.Sprintf("startIndex = %d", sv.FieldByName("StartIndex").Uint())
		}
	case "Link":
		if sv.FieldByName("Href").String() != "https://example.com/href" {
			bad = "href = " + sv.FieldByName("Href").String()
		} else if sv.FieldByName("Rel").String() != "canonical" {
			bad = "rel = " + sv.FieldByName("Rel").String()
		}
	case "Actor":
		if link("Inbox") != "https://example.com/inbox" {
			bad = "inbox = " + link("Inbox")
		}
	case "Activity":
		if link("Object") != "https://example.com/object" {
			bad = "object = " + link("Object")
		}
	case "IntransitiveActivity":
		if link("Actor") != "https://example.com/actor" {
			bad = "actor = " + link("Actor")
		}
	}
	switch ti.GoType {
	case "Activity", "IntransitiveActivity", "Question":
		for _, term := range c07ActivityTerms {
			if f := strings.ToUpper(term[:1]) + term[1:]; bad == "" && link(f) != "https://example.com/"+term {
				bad = term + " = " + link(f)
			}
		}
	}
	return bad
}

// c07Family checks the family list predicates, the value predicates and the family's To helper.
func c07Family(it ap.Item, name string, ti vocab.TypeInfo) []string {
	var bad []string
	typ := ap.ActivityVocabularyType(name)
	lists := []struct {
		n    string
		l    ap.ActivityVocabularyTypes
		want bool
	}{
		{"ObjectTypes", ap.ObjectTypes, ti.Family == vocab.FObject && !ti.Generic},
		{"ActorTypes", ap.ActorTypes, ti.Family == vocab.FActor && !ti.Generic},
		{"ActivityTypes", ap.ActivityTypes, ti.Family == vocab.FActivity && !ti.Generic},
		{"IntransitiveActivityTypes", ap.IntransitiveActivityTypes, ti.Family == vocab.FIntransitive && !ti.Generic},
		{"LinkTypes", ap.LinkTypes, ti.Family == vocab.FLink},
		{"CollectionTypes", ap.CollectionTypes, ti.Family == vocab.FCollection},
		{"GenericTypes", ap.GenericTypes, ti.Generic},
	}
	for _, l := range lists {
		if got := l.l.Contains(typ); got != l.want {
			bad = append(bad, fmt.Sprintf("%s.Contains(%s) = %v", l.n, name, got))
		}
	}
	if !ti.Generic && !ap.Types.Contains(typ) {
		bad = append(bad, "Types does not list "+name)
	}
	if it == nil {
		return bad
	}
	isLink := ti.Family == vocab.FLink
	if it.IsLink() != isLink {
		bad = append(bad, fmt.Sprintf("IsLink() = %v", it.IsLink()))
	}
	if it.IsObject() != !isLink {
		bad = append(bad, fmt.Sprintf("IsObject() = %v", it.IsObject()))
	}
	if it.IsCollection() != (ti.Family == vocab.FCollection) {
		bad = append(bad, fmt.Sprintf("IsCollection() = %v", it.IsCollection()))
	}
	if ap.IsLink(it) != isLink || ap.IsObject(it) != !isLink {
		bad = append(bad, fmt.Sprintf("package IsLink/IsObject = %v/%v", ap.IsLink(it), ap.IsObject(it)))
	}
	var err error
	called := false
	switch ti.Family {
	case vocab.FObject:
		err = ap.OnObject(it, func(*ap.Object) error { called = true; return nil })
	case vocab.FActor:
		err = ap.OnActor(it, func(*ap.Actor) error { called = true; return nil })
	case vocab.FActivity:
		err = ap.OnActivity(it, func(*ap.Activity) error { called = true; return nil })
	case vocab.FIntransitive:
		err = ap.OnIntransitiveActivity(it, func(*ap.IntransitiveActivity) error { called = true; return nil })
	case vocab.FLink:
		err = ap.OnLink(it, func(*ap.Link) error { called = true; return nil })
	case vocab.FCollection:
		err = ap.OnCollectionIntf(it, func(ap.CollectionInterface) error { called = true; return nil })
	}
	if err != nil || !called {
		bad = append(bad, fmt.Sprintf("the family's On helper refused it (err=%v, called=%v)", err, called))
	}
	return bad
}

// c07Produce runs one entry point for one name; returns the produced item (nil allowed) and an error.
func c07Produce(entry, name string, ti vocab.TypeInfo, known bool) (it ap.Item, err error) {
	doc := c07Doc(name, ti, known)
	switch entry {
	case "registry":
		// the registry is the (replaceable) package-level typer, GetItemByType by default
		return ap.ItemTyperFunc(ap.ActivityVocabularyType(name))
	case "json-top":
		b, _ := json.Marshal(doc)
		return ap.UnmarshalJSON(b)
	case "json-item":
		b, _ := json.Marshal(map[string]interface{}{"id": "https://example.com/outer", "type": "Note", "attachment": doc})
		outer, err := ap.UnmarshalJSON(b)
		if err != nil || outer == nil {
			return nil, fmt.Errorf("outer document: %v", err)
		}
		return outer.(*ap.Object).Attachment, nil
	case "json-list":
		b, _ := json.Marshal(map[string]interface{}{"id": "https://example.com/outer", "type": "Note", "tag": []interface{}{"https://example.com/first", doc}})
		outer, err := ap.UnmarshalJSON(b)
		if err != nil || outer == nil {
			return nil, fmt.Errorf("outer document: %v", err)
		}
		tag := outer.(*ap.Object).Tag
		if len(tag) < 2 {
			return nil, nil
		}
		return tag[1], nil
	case "json-list-after-unknown":
		// the same list position, behind a sibling whose type is outside the vocabulary (a Mastodon tag list: Hashtag, then Mention):
		// what the sibling becomes is its own affair, the member behind it must arrive as it would alone
		sibling := map[string]interface{}{"type": "Hashtag", "href": "https://example.com/tags/x", "name": "#x"}
		b, _ := json.Marshal(map[string]interface{}{"id": "https://example.com/outer", "type": "Note", "tag": []interface{}{sibling, doc}})
		outer, err := ap.UnmarshalJSON(b)
		if err != nil || outer == nil {
			return nil, fmt.Errorf("outer document: %v", err)
		}
		want := ap.IRI(doc["id"].(string))
		for _, m := range outer.(*ap.Object).Tag {
			if !ap.IsNil(m) && m.GetLink() == want {
				return m, nil
			}
		}
		return nil, nil
	case "json-list-bare":
		// a list of one written as the bare member ("tag":{...}, which ActivityStreams allows for any property): in a list property
		// of an object, of an activity and as the items of a collection
		var found ap.Item
		for k, outerDoc := range []map[string]interface{}{
			{"id": "https://example.com/outer", "type": "Note", "tag": doc},
			{"id": "https://example.com/outer", "type": "Create", "cc": doc},
			{"id": "https://example.com/outer", "type": "Collection", "items": doc},
		} {
			b, _ := json.Marshal(outerDoc)
			outer, err := ap.UnmarshalJSON(b)
			if err != nil || outer == nil {
				return nil, fmt.Errorf("outer document %d: %v", k, err)
			}
			var l ap.ItemCollection
			switch o := outer.(type) {
			case *ap.Object:
				l = o.Tag
			case *ap.Activity:
				l = o.CC
			case *ap.Collection:
				l = o.Items
			}
			if len(l) != 1 {
				return nil, nil
			}
			if k > 0 && (vocab.GoTypeName(l[0]) != vocab.GoTypeName(found) || l[0].GetLink() != found.GetLink()) {
				return nil, fmt.Errorf("the bare member arrived as %T in one list property and as %T in another", found, l[0])
			}
			found = l[0]
		}
		return found, nil
	case "json-list-after-untyped":
		// the same list position, behind an untyped sibling that says the same things under the same id (an earlier rendering of the
		// same thing by a server that wrote no type): the typed member is a different value and must arrive as it would alone
		if name == "" {
			return c07Produce("json-list", name, ti, known)
		}
		sibling := map[string]interface{}{"id": doc["id"]}
		for _, k := range []string{"summary", "name"} {
			if v, ok := doc[k]; ok {
				sibling[k] = v
			}
		}
		b, _ := json.Marshal(map[string]interface{}{"id": "https://example.com/outer", "type": "Note", "tag": []interface{}{sibling, doc}})
		outer, err := ap.UnmarshalJSON(b)
		if err != nil || outer == nil {
			return nil, fmt.Errorf("outer document: %v", err)
		}
		want := ap.IRI(doc["id"].(string))
		for _, m := range outer.(*ap.Object).Tag {
			if !ap.IsNil(m) && m.GetLink() == want && m.GetType() != "" {
				return m, nil
			}
		}
		return nil, nil
	case "json-typeonly", "gob-top-typeonly", "gob-nested-typeonly":
		// a value that says nothing but its type ({"type":"Travel"}): the type alone must carry it through both codecs
		p := reflect.New(vocab.StructType(ti.GoType))
		p.Elem().FieldByName("Type").SetString(name)
		bare := p.Interface().(ap.Item)
		switch entry {
		case "json-typeonly":
			b, err := ap.MarshalJSON(bare)
			if err != nil {
				return nil, fmt.Errorf("encode: %v", err)
			}
			return ap.UnmarshalJSON(b)
		case "gob-top-typeonly":
			b, err := ap.GobEncode(bare)
			if err != nil {
				return nil, fmt.Errorf("encode: %v", err)
			}
			return ap.GobDecode(b)
		}
		b, err := ap.GobEncode(&ap.Object{ID: "https://example.com/outer", Type: ap.NoteType, Attachment: bare})
		if err != nil {
			return nil, fmt.Errorf("encode: %v", err)
		}
		outer, err := ap.GobDecode(b)
		if err != nil || outer == nil {
			return nil, fmt.Errorf("outer value: %v", err)
		}
		o, ok := outer.(*ap.Object)
		if !ok {
			return nil, fmt.Errorf("outer value is %T", outer)
		}
		return o.Attachment, nil
	case "gob-top":
		b, err := ap.GobEncode(c07Value(name, ti))
		if err != nil {
			return nil, fmt.Errorf("encode: %v", err)
		}
		return ap.GobDecode(b)
	case "gob-nested":
		b, err := ap.GobEncode(&ap.Object{ID: "https://example.com/outer", Type: ap.NoteType, Attachment: c07Value(name, ti)})
		if err != nil {
			return nil, fmt.Errorf("encode: %v", err)
		}
		outer, err := ap.GobDecode(b)
		if err != nil || outer == nil {
			return nil, fmt.Errorf("outer value: %v", err)
		}
		o, ok := outer.(*ap.Object)
		if !ok {
			return nil, fmt.Errorf("outer value is %T", outer)
		}
		return o.Attachment, nil
	}
	return nil, fmt.Errorf("unknown entry")
}

func TestC07(t *testing.T) {
	r := ev.Open(t, "C07")
	defer r.Close(t)
	r.Rule("exhaustive: every vocabulary type name of the ground-truth table (written from the ActivityStreams vocabulary), the generic names, the empty name and three names outside the vocabulary " +
		"x {registry, JSON top level, JSON nested in an item property, JSON nested in a list, the same behind a sibling of a type outside the vocabulary and behind an untyped sibling with the same id and text, a list of one written as the bare member, gob top level, gob nested, and a value that says nothing but its type through JSON, gob top level and gob nested} x {hooks unset, hooks set}. Oracle: concrete Go type == ground truth; decoded id + one " +
		"object-core marker + one type-specific marker; family list predicates, IsObject/IsLink/IsCollection and the family's On helper agree with the vocabulary's family; outside the vocabulary without hooks: " +
		"error, nothing or the untyped *Object fallback; with hooks: identical outcome for vocabulary names. non-trivial = cell with a vocabulary name; distinct by cell")
	r.Note("only_enumerated_layers", true)

	type nameCase struct {
		name  string
		ti    vocab.TypeInfo
		known bool
	}
	var names []nameCase
	for _, ti := range vocab.GroundTruth {
		names = append(names, nameCase{string(ti.Name), ti, true})
	}
	for _, n := range []string{"", c07Foreign, "note", "Tombstoned"} {
		names = append(names, nameCase{n, vocab.TypeInfo{GoType: "Object", Family: vocab.FObject}, false})
	}

	origTyper, origUnm, origNE := ap.ItemTyperFunc, ap.JSONItemUnmarshal, ap.IsNotEmpty
	restore := func() { ap.ItemTyperFunc, ap.JSONItemUnmarshal, ap.IsNotEmpty = origTyper, origUnm, origNE }
	defer restore()
	install := func() {
		ap.ItemTyperFunc = func(typ ap.ActivityVocabularyType) (ap.Item, error) {
			if typ == c07Foreign {
				return &ap.Place{Type: typ}, nil
			}
			return origTyper(typ)
		}
		ap.JSONItemUnmarshal = func(typ ap.ActivityVocabularyType, val *fastjson.Value, it ap.Item) error {
			if typ == c07Foreign {
				return ap.OnPlace(it, func(p *ap.Place) error { return ap.JSONLoadPlace(val, p) })
			}
			return fmt.Errorf("unknown type %s", typ)
		}
		ap.IsNotEmpty = func(it ap.Item) bool { return origNE(it) }
	}

	total, done := 0, 0
	unsetResult := map[string]string{}
	for _, hooks := range []string{"unset", "set"} {
		for _, nc := range names {
			for _, entry := range c07Entries {
				if (strings.HasPrefix(entry, "gob-") || entry == "json-typeonly") && !nc.known {
					continue // a gob stream "bearing that type" needs a value of a known Go type to be encoded from
				}
				total++
				cell := fmt.Sprintf("%s %s hooks=%s", nc.name, entry, hooks)
				if !r.WantCell(cell) && !(r.Replaying() && strings.HasPrefix(r.ReplayCell(), nc.name+" "+entry+" hooks=")) {
					continue
				}
				done++
				if hooks == "set" {
					install()
				}
				var it ap.Item
				var err error
				var fam []string
				marker := ""
				pi := evSafe(func() {
					it, err = c07Produce(entry, nc.name, nc.ti, nc.known)
					if nc.known && err == nil && !vocab.IsEmptyItem(it) {
						fam = c07Family(it, nc.name, nc.ti)
						if entry != "registry" && !strings.HasSuffix(entry, "typeonly") {
							marker = c07CheckMarkers(it, nc.name, nc.ti)
						}
					}
				})
				restore()
				r.Case(cell, nc.known, "names entry="+entry, "names hooks="+hooks, "names family="+string(nc.ti.Family))
				if done%61 == 0 {
					r.Sample(cell, map[string]interface{}{"name": nc.name, "entry": entry, "hooks": hooks, "result": fmt.Sprintf("%T", it)})
				}
				key := fmt.Sprintf("type %s %s %s", nc.name, entry, hooks)
				if pi != nil {
					r.Report("cells", cell, key+" panic@"+pi.Frame, pi.Value, cell)
					continue
				}
				outcome := fmt.Sprintf("%T err=%v %s", it, err != nil, vocab.Dump(it))
				if nc.known {
					switch {
					case err != nil:
						r.Report("cells", cell, key+" error", fmt.Sprintf("%s: error %v", cell, err), cell)
					case vocab.IsEmptyItem(it):
						r.Report("cells", cell, key+" nothing", cell+": nothing was produced", cell)
					case vocab.GoTypeName(it) != nc.ti.GoType || reflect.TypeOf(it).Kind() != reflect.Ptr:
						r.Report("cells", cell, key+" go-type", fmt.Sprintf("%s: produced %T, the vocabulary says *%s", cell, it, nc.ti.GoType), cell)
					default:
						if marker != "" {
							r.Report("cells", cell, key+" marker", cell+": a written property did not arrive: "+marker, cell)
						}
						for _, f := range fam {
							r.Report("cells", cell, key+" family", cell+": "+f, cell)
						}
					}
					if hooks == "unset" {
						unsetResult[nc.name+" "+entry] = outcome
					} else if prev, ok := unsetResult[nc.name+" "+entry]; ok && prev != outcome {
						r.Report("cells", cell, key+" hooks-change-vocabulary-outcome", fmt.Sprintf("%s: with hooks %s, without %s", cell, outcome, prev), cell)
					}
					continue
				}
				// the empty name: an untyped document decodes to an Object that carries what was written, with or without an id
				if nc.name == "" && strings.HasPrefix(entry, "json-") && !strings.HasSuffix(entry, "typeonly") {
					for _, withID := range []bool{true, false} {
						doc := map[string]interface{}{"summary": "marker summary"}
						if withID {
							doc["id"] = "https://example.com/things/untyped"
						}
						var got ap.Item
						var derr error
						pi := evSafe(func() {
							switch entry {
							case "json-top":
								b, _ := json.Marshal(doc)
								got, derr = ap.UnmarshalJSON(b)
							case "json-item":
								b, _ := json.Marshal(map[string]interface{}{"id": "https://example.com/outer", "type": "Note", "attachment": doc})
								var outer ap.Item
								if outer, derr = ap.UnmarshalJSON(b); derr == nil && outer != nil {
									got = outer.(*ap.Object).Attachment
								}
							default:
								b, _ := json.Marshal(map[string]interface{}{"id": "https://example.com/outer", "type": "Note", "tag": []interface{}{"https://example.com/first", doc}})
								var outer ap.Item
								if outer, derr = ap.UnmarshalJSON(b); derr == nil && outer != nil {
									if tag := outer.(*ap.Object).Tag; len(tag) == 2 {
										got = tag[1]
									}
								}
							}
						})
						ukey := fmt.Sprintf("type (untyped) %s %s id=%v", entry, hooks, withID)
						o, isObj := got.(*ap.Object)
						switch {
						case pi != nil:
							r.Report("cells", cell, ukey+" panic@"+pi.Frame, pi.Value, cell)
						case derr != nil || !isObj || o == nil:
							r.Report("cells", cell, ukey+" not-an-object", fmt.Sprintf("an untyped document with a summary decoded to %T (err=%v), expected *Object", got, derr), cell)
						case len(o.Summary) != 1 || string(o.Summary[0].Value) != "marker summary":
							r.Report("cells", cell, ukey+" marker", "the summary that was written did not arrive: "+vocab.Dump(o), cell)
						}
					}
				}
				// names outside the vocabulary
				if hooks == "unset" || nc.name != c07Foreign {
					if err == nil && !vocab.IsEmptyItem(it) {
						if _, isObj := it.(*ap.Object); !isObj {
							r.Report("cells", cell, key+" foreign-wrong-type", fmt.Sprintf("%s: a name outside the vocabulary produced %T", cell, it), cell)
						}
					}
					// "an error or nothing": a decoder that hands back a value for such a document hands back the document (the untyped
					// fallback carries the id that was written); a value that is there but says nothing is neither
					if err == nil && nc.name != "" && strings.HasPrefix(entry, "json-") && !ap.IsNil(it) && string(it.GetLink()) != c07Doc(nc.name, nc.ti, nc.known)["id"] {
						r.Report("cells", cell, key+" foreign-hollow-value", fmt.Sprintf("%s: a name outside the vocabulary produced %T %s, which is not nothing and does not carry the id that was written", cell, it, vocab.Dump(it)), cell)
					}
				} else if entry != "registry" && entry != "json-list" && entry != "json-list-after-unknown" && entry != "json-list-after-untyped" && entry != "json-list-bare" && entry != "json-item" && entry != "json-top" {
					_ = it
				} else if err != nil || vocab.GoTypeName(it) != "Place" {
					r.Report("cells", cell, key+" hook-ignored", fmt.Sprintf("%s: the installed hooks handle this name, got %T err=%v", cell, it, err), cell)
				}
			}
		}
	}
	r.Cells(total, done)
	r.Exhaustive("cells", !r.Replaying())

	// "carries the id and properties that were written", for all of them at once: the value with every property of the Go type set,
	// under every name of that type, through every position; compared property by property with what was written
	if r.WantLayer("everything", true) {
		nest := func(name string, base codec, wrap func(x ap.Item) ap.Item, unwrap func(outer ap.Item) ap.Item) codec {
			return codec{name, func(x ap.Item) ([]byte, error) { return base.encode(wrap(x)) },
				func(x ap.Item, b []byte) (ap.Item, error) {
					outer, err := base.decode(nil, b)
					if err != nil || ap.IsNil(outer) {
						return nil, fmt.Errorf("outer value: %v (%T)", err, outer)
					}
					return unwrap(outer), nil
				}, base.form}
		}
		inAttachment := func(x ap.Item) ap.Item {
			return &ap.Object{ID: "https://example.com/outer", Type: ap.NoteType, Attachment: x}
		}
		outAttachment := func(o ap.Item) ap.Item {
			if ob, ok := o.(*ap.Object); ok {
				return ob.Attachment
			}
			return nil
		}
		inTag := func(x ap.Item) ap.Item {
			return &ap.Object{ID: "https://example.com/outer", Type: ap.NoteType, Tag: ap.ItemCollection{ap.IRI("https://example.com/first"), x}}
		}
		outTag := func(o ap.Item) ap.Item {
			if ob, ok := o.(*ap.Object); ok && len(ob.Tag) == 2 {
				return ob.Tag[1]
			}
			return nil
		}
		inActivity := func(x ap.Item) ap.Item {
			return &ap.Activity{ID: "https://example.com/outer", Type: ap.CreateType, Actor: ap.IRI("https://example.com/actors/outer"), Object: x}
		}
		outActivity := func(o ap.Item) ap.Item {
			if a, ok := o.(*ap.Activity); ok {
				return a.Object
			}
			return nil
		}
		inItems := func(x ap.Item) ap.Item {
			return &ap.OrderedCollection{ID: "https://example.com/outer", Type: ap.OrderedCollectionType, TotalItems: 2, OrderedItems: ap.ItemCollection{x, ap.IRI("https://example.com/last")}}
		}
		outItems := func(o ap.Item) ap.Item {
			if c, ok := o.(*ap.OrderedCollection); ok && len(c.OrderedItems) == 2 {
				return c.OrderedItems[0]
			}
			return nil
		}
		all := []codec{
			nest("json-top", codecJSONPkg, func(x ap.Item) ap.Item { return x }, func(o ap.Item) ap.Item { return o }),
			nest("json-item", codecJSONPkg, inAttachment, outAttachment),
			nest("json-list", codecJSONPkg, inTag, outTag),
			nest("json-activity-object", codecJSONPkg, inActivity, outActivity),
			nest("json-collection-items", codecJSONPkg, inItems, outItems),
			nest("gob-top", codecGobPkg, func(x ap.Item) ap.Item { return x }, func(o ap.Item) ap.Item { return o }),
			nest("gob-nested", codecGobPkg, inAttachment, outAttachment),
			nest("gob-list", codecGobPkg, inTag, outTag),
			nest("gob-activity-object", codecGobPkg, inActivity, outActivity),
			nest("gob-collection-items", codecGobPkg, inItems, outItems),
		}
		atotal, adone := 0, 0
		for _, hooks := range []string{"unset", "set"} {
			for _, nc := range names {
				if !nc.known {
					continue
				}
				for ci, c := range all {
					for n := 0; n < 3; n++ {
						if n > 0 && hooks == "set" && (ci+n)%3 != 0 {
							continue
						}
						atotal++
						cell := fmt.Sprintf("%s %s-all#%d hooks=%s", nc.name, c.name, n, hooks)
						if !r.WantCell(cell) {
							continue
						}
						adone++
						x := vocab.EverythingN(vocab.StructType(nc.ti.GoType), c.form == vocab.GobForm, n)
						sv, _ := vocab.StructOf(x)
						sv.FieldByName("Type").SetString(nc.name)
						if hooks == "set" {
							install()
						}
						ds, _ := roundTrip(c, x, "type "+nc.name+" "+c.name+"-all "+hooks, nc.ti.GoType+".*")
						restore()
						r.Case(cell, true, "everything entry="+c.name)
						if adone%97 == 0 {
							r.Sample(cell, map[string]interface{}{"name": nc.name, "entry": c.name, "hooks": hooks, "differences": len(ds)})
						}
						reportAll(r, "everything", cell, ds, map[string]interface{}{"cell": cell, "value": vocab.Dump(x)})
					}
				}
			}
		}
		// and one property at a time (a row whose guard looks at a sibling only shows when the sibling is not there)
		for ni, nc := range names {
			if !nc.known {
				continue
			}
			for ci, c := range all {
				if c.name != "json-top" && c.name != "json-item" && c.name != "gob-top" && c.name != "gob-nested" && c.name != "gob-list" {
					continue
				}
				for _, one := range vocab.OneProperty(vocab.StructType(nc.ti.GoType), c.form == vocab.GobForm, ni+ci) {
					atotal++
					cell := fmt.Sprintf("%s %s-one %s", nc.name, c.name, one.ID)
					if !r.WantCell(cell) {
						continue
					}
					adone++
					x := one.Value
					sv, _ := vocab.StructOf(x)
					sv.FieldByName("Type").SetString(nc.name)
					ds, _ := roundTrip(c, x, "type "+nc.name+" "+c.name+"-one unset", one.Type.Name()+"."+one.Field.Name)
					r.Case(cell, true, "everything one-property entry="+c.name)
					reportAll(r, "everything", cell, ds, map[string]interface{}{"cell": cell, "value": vocab.Dump(x)})
				}
			}
		}
		// and one property that is set and says nothing (an empty list, texts without text, an endpoints object without endpoints -
		// what "endpoints":{} decodes to) in a value that holds nothing else: the value still arrives, as what it is
		for _, nc := range names {
			if !nc.known {
				continue
			}
			st := vocab.StructType(nc.ti.GoType)
			for _, c := range all {
				if c.name != "json-top" && c.name != "gob-top" && c.name != "gob-nested" && c.name != "gob-list" {
					continue
				}
				for _, f := range vocab.Fields(st) {
					var e reflect.Value
					switch f.Kind {
					case vocab.KItem:
						var it ap.Item = ap.ItemCollection{}
						e = reflect.ValueOf(&it).Elem()
					case vocab.KItems:
						e = reflect.ValueOf(ap.ItemCollection{})
					case vocab.KNLV:
						e = reflect.ValueOf(ap.NaturalLanguageValues{{Ref: "en", Value: ap.Content("")}})
					case vocab.KEndpoints:
						e = reflect.ValueOf(&ap.Endpoints{})
					default:
						continue
					}
					atotal++
					cell := fmt.Sprintf("%s %s-one-empty %s", nc.name, c.name, f.Name)
					if !r.WantCell(cell) {
						continue
					}
					adone++
					p := reflect.New(st)
					p.Elem().FieldByName("ID").SetString("https://example.com/alone")
					p.Elem().FieldByName("Type").SetString(nc.name)
					p.Elem().Field(f.Index).Set(e)
					x := p.Interface().(ap.Item)
					ds, _ := roundTrip(c, x, "type "+nc.name+" "+c.name+"-one-empty unset", st.Name()+"."+f.Name)
					r.Case(cell, true, "everything one-empty entry="+c.name)
					reportAll(r, "everything", cell, ds, map[string]interface{}{"cell": cell, "value": vocab.Dump(x)})
				}
			}
		}
		r.Cells(atotal, adone)
		r.Exhaustive("everything", !r.Replaying())
	}
}
