package props

import (
	"encoding/json"
	"fmt"
	"path/filepath"
	"reflect"
	"sort"
	"strings"
	"testing"
	"unicode/utf8"

	ap "github.com/go-ap/activitypub"
	"pgregory.net/rapid"
	"verif/harness/ev"
	"verif/harness/vocab"
)

// C06 — Natural-language text survives both codecs byte for byte.

type c06Prop struct {
	GoType string
	Field  string // Name | Summary | Content | PreferredUsername | Source.Content
}

var c06Props = func() []c06Prop {
	var out []c06Prop
	for _, st := range vocab.StructTypes {
		for _, f := range []string{"Name", "Summary", "Content", "PreferredUsername"} {
			if _, ok := vocab.FieldByName(st, f); ok {
				out = append(out, c06Prop{st.Name(), f})
			}
		}
		if _, ok := vocab.FieldByName(st, "Source"); ok {
			out = append(out, c06Prop{st.Name(), "Source.Content"}, c06Prop{st.Name(), "Source.ContentOnly"}) // a source with and without its media type
		}
	}
	// the text next to sibling text properties that are set and say nothing (entries without text), in a value that holds nothing
	// else: what one property has not got to say takes nothing away from the others
	for _, tn := range []string{"Object", "Actor", "Activity", "Question", "Place", "OrderedCollection", "Tombstone"} {
		for _, f := range []string{"Name", "Summary", "Content", "PreferredUsername"} {
			if _, ok := vocab.FieldByName(vocab.StructType(tn), f); ok {
				out = append(out, c06Prop{tn, f + "@textless-siblings"})
			}
		}
	}
	// an object that is nothing but its text (no id, no type), on its own and as a member of another object's tag list
	for _, f := range []string{"Name", "Summary", "Content", "Source.Content", "Source.ContentOnly"} {
		out = append(out, c06Prop{"Object", f + "@anon"}, c06Prop{"Object", f + "@anon-nested"})
		if !strings.HasPrefix(f, "Source") {
			// two id-less members of one type in one list that say the same in the first language and differ in a later one (or, with one
			// language, in the text): two members, both kept, each with its own texts
			out = append(out, c06Prop{"Object", f + "@siblings"})
		}
	}
	return out
}()

// c06Anon splits the "@anon" / "@anon-nested" suffix off a property name.
func c06Anon(field string) (string, string) {
	if i := strings.Index(field, "@"); i >= 0 {
		return field[:i], field[i+1:]
	}
	return field, ""
}

func c06TextClass(s string) string {
	for i := 0; i+1 < len(s); i++ {
		if s[i] == '\\' && strings.ContainsRune(`afnrtv"\u/b`, rune(s[i+1])) {
			return "escape-lookalike"
		}
	}
	if json.Valid([]byte(s)) {
		return "json-lookalike"
	}
	switch charClass(s) {
	case "benign":
		if strings.TrimSpace(s) != s {
			return "edge-space"
		}
		return "plain"
	default:
		return charClass(s)
	}
}

func c06Build(p c06Prop, nl ap.NaturalLanguageValues) ap.Item {
	ptr := reflect.New(vocab.StructType(p.GoType))
	v := ptr.Elem()
	field, anon := c06Anon(p.Field)
	if anon == "" {
		v.FieldByName("ID").SetString("https://example.com/texts/1")
		v.FieldByName("Type").SetString(string(vocab.DefaultType[p.GoType]))
	}
	if field == "Source.Content" {
		v.FieldByName("Source").Set(reflect.ValueOf(ap.Source{MediaType: "text/markdown", Content: nl}))
	} else if field == "Source.ContentOnly" {
		v.FieldByName("Source").Set(reflect.ValueOf(ap.Source{Content: nl}))
	} else {
		v.FieldByName(field).Set(reflect.ValueOf(nl))
	}
	if anon == "textless-siblings" {
		v.FieldByName("ID").SetString("https://example.com/texts/1")
		v.FieldByName("Type").SetString(string(vocab.DefaultType[p.GoType]))
		for _, other := range []string{"Name", "Summary", "Content", "PreferredUsername"} {
			if f := v.FieldByName(other); f.IsValid() && other != field {
				f.Set(reflect.ValueOf(ap.NaturalLanguageValues{{Ref: "en", Value: ap.Content("")}, {Ref: "fr"}}))
			}
		}
	}
	if anon == "anon-nested" {
		return &ap.Object{ID: "https://example.com/texts/1", Type: ap.NoteType, Tag: ap.ItemCollection{ap.IRI("https://example.com/tags/first"), ptr.Interface().(ap.Item)}}
	}
	if anon == "siblings" {
		v.FieldByName("Type").SetString("Note")
		twin := reflect.New(vocab.StructType(p.GoType))
		twin.Elem().FieldByName("Type").SetString("Note")
		other := append(ap.NaturalLanguageValues{}, nl...)
		last := len(other) - 1
		other[last] = ap.LangRefValue{Ref: other[last].Ref, Value: ap.Content("the other sibling says: " + string(other[last].Value))}
		twin.Elem().FieldByName(field).Set(reflect.ValueOf(other))
		return &ap.Object{ID: "https://example.com/texts/1", Type: ap.NoteType, Tag: ap.ItemCollection{twin.Interface().(ap.Item), ptr.Interface().(ap.Item)}}
	}
	return ptr.Interface().(ap.Item)
}

func c06Extract(p c06Prop, it ap.Item) (ap.NaturalLanguageValues, bool) {
	field, anon := c06Anon(p.Field)
	if anon == "anon-nested" || anon == "siblings" {
		outer, ok := it.(*ap.Object)
		if !ok || outer == nil || len(outer.Tag) != 2 {
			return nil, false
		}
		it = outer.Tag[1]
	}
	sv, ok := vocab.StructOf(it)
	if !ok || sv.Type().Name() != p.GoType {
		return nil, false
	}
	if field == "Source.Content" || field == "Source.ContentOnly" {
		return sv.FieldByName("Source").Interface().(ap.Source).Content, true
	}
	return sv.FieldByName(field).Interface().(ap.NaturalLanguageValues), true
}

var c06Codecs = []struct {
	name string
	c    codec
	gob  bool
}{
	{"json-pkg", codecJSONPkg, false}, {"json-typed", codecJSONTyped, false}, {"gob-pkg", codecGobPkg, true}, {"gob-typed", codecGobTyped, true}, {"binary", codecBinary, true},
}

// c06Check round-trips one natural-language value in one property through one codec.
func c06Check(p c06Prop, nl ap.NaturalLanguageValues, ci int) (ds []keyed) {
	cd := c06Codecs[ci]
	x := c06Build(p, append(ap.NaturalLanguageValues{}, nl...))
	form := "single"
	if len(nl) > 1 {
		form = "map"
	}
	family := "json"
	if cd.gob {
		family = "gob"
	}
	worst := "plain"
	for _, e := range nl {
		c := c06TextClass(string(e.Value))
		if c != "plain" {
			worst = c
		}
	}
	key := func(effect string) string {
		return fmt.Sprintf("text %s %s %s %s %s", family, p.Field, form, worst, effect)
	}
	var back ap.Item
	var b []byte
	var err error
	stage := "encode"
	pi := evSafe(func() {
		b, err = cd.c.encode(x)
		if err == nil {
			stage = "decode"
			back, err = cd.c.decode(x, b)
		}
	})
	if pi != nil {
		return []keyed{{key("panic@" + pi.Frame), stage + ": " + pi.Value}}
	}
	if err != nil {
		return []keyed{{key(stage + "-error"), fmt.Sprintf("%s error %v (encoded %s)", stage, err, clipBytes(b, 300))}}
	}
	// what came back belongs to the caller: decoding other documents afterwards (of the same size, through the same entry points) must
	// not reach into it.  A decoder that hands out text still lying in a buffer it reuses shows here.
	if pi := evSafe(func() { c06Clobber(len(b)) }); pi != nil {
		return []keyed{{key("panic@" + pi.Frame), "decoding an unrelated document: " + pi.Value}}
	}
	got, ok := c06Extract(p, back)
	if !ok {
		return []keyed{{key("lost-value"), fmt.Sprintf("decoded %T instead of %s (encoded %s)", back, p.GoType, clipBytes(b, 300))}}
	}
	pairs := func(n ap.NaturalLanguageValues, collapse bool) []string {
		var out []string
		for _, e := range n {
			if len(e.Value) == 0 {
				continue // absent under the normal form
			}
			tag := string(e.Ref)
			if collapse {
				tag = "-"
			}
			out = append(out, fmt.Sprintf("%s=%q", tag, []byte(e.Value)))
		}
		sort.Strings(out)
		return out
	}
	withText := 0
	for _, e := range nl {
		if len(e.Value) > 0 {
			withText++
		}
	}
	collapse := !cd.gob && withText == 1 && len(nl) == 1 // a lone language-tagged string is written collapsed and returns untagged
	w, g := pairs(nl, collapse), pairs(got, collapse)
	if strings.Join(w, "|") != strings.Join(g, "|") {
		effect := "text-altered"
		if len(got) != len(nl) {
			effect = "entry-lost"
		}
		ds = append(ds, keyed{key(effect), fmt.Sprintf("%s.%s through %s: stored %v, came back %v (encoded %s)", p.GoType, p.Field, cd.name, w, g, clipBytes(b, 300))})
	}
	return ds
}

// c06Clobber decodes unrelated documents of about n bytes through the JSON and gob entry points.
func c06Clobber(n int) {
	pad := strings.Repeat("#~", n/2+8)
	doc := []byte(`{"type":"Note","id":"https://example.com/unrelated","nameMap":{"de":"` + pad + `","es":"` + pad + `"},"contentMap":{"it":"` + pad + `","pt":"` + pad + `"}}`)
	_, _ = ap.UnmarshalJSON(doc)
	_ = new(ap.Object).UnmarshalJSON(doc)
	var nl ap.NaturalLanguageValues
	_ = nl.UnmarshalJSON([]byte(`{"de":"` + pad + `","es":"` + pad + `"}`))
	clobberGob(n)
}

var c06ValuePairs = []string{"json-methods", "encoding/json", "gob-methods"}

// c06ValueCheck round-trips a language list on its own through one of its own entry pairs.
func c06ValueCheck(nl ap.NaturalLanguageValues, pair string) (ds []keyed) {
	form := "single"
	if len(nl) > 1 {
		form = "map"
	}
	family := "json"
	if pair == "gob-methods" {
		family = "gob"
	}
	worst := "plain"
	for _, e := range nl {
		if c := c06TextClass(string(e.Value)); c != "plain" {
			worst = c
		}
	}
	key := func(effect string) string {
		return fmt.Sprintf("text %s value-%s %s %s %s", family, pair, form, worst, effect)
	}
	x := append(ap.NaturalLanguageValues{}, nl...)
	var got ap.NaturalLanguageValues
	var b []byte
	var err error
	stage := "encode"
	pi := evSafe(func() {
		switch pair {
		case "json-methods":
			if b, err = x.MarshalJSON(); err == nil {
				stage = "decode"
				err = got.UnmarshalJSON(b)
			}
		case "encoding/json":
			if b, err = json.Marshal(x); err == nil {
				stage = "decode"
				err = json.Unmarshal(b, &got)
			}
		case "gob-methods":
			if b, err = x.GobEncode(); err == nil {
				stage = "decode"
				err = got.GobDecode(b)
			}
		}
	})
	if pi != nil {
		return []keyed{{key("panic@" + pi.Frame), stage + ": " + pi.Value}}
	}
	if err != nil {
		return []keyed{{key(stage + "-error"), fmt.Sprintf("%s error %v (encoded %s)", stage, err, clipBytes(b, 300))}}
	}
	pairs := func(n ap.NaturalLanguageValues, collapse bool) []string {
		var out []string
		for _, e := range n {
			if len(e.Value) == 0 {
				continue // absent under the normal form
			}
			tag := string(e.Ref)
			if collapse {
				tag = "-"
			}
			out = append(out, fmt.Sprintf("%s=%q", tag, []byte(e.Value)))
		}
		sort.Strings(out)
		return out
	}
	collapse := family == "json" && len(nl) == 1
	w, g := pairs(nl, collapse), pairs(got, collapse)
	if strings.Join(w, "|") != strings.Join(g, "|") {
		effect := "text-altered"
		if len(got) != len(nl) {
			effect = "entry-lost"
		}
		ds = append(ds, keyed{key(effect), fmt.Sprintf("a language list on its own through %s: stored %v, came back %v (encoded %s)", pair, w, g, clipBytes(b, 300))})
	}
	return ds
}

var c06Texts = func() []string {
	out := []string{
		"x", " ", "a b", " leading", "trailing ", "line\nfeed", "tab\there", "cr\r", "nul\x00byte", "\x01\x02\x1f", "\x7f", `"`, `""`, `"quoted"`, `a"b`, `\`, `\\`, `\\\`, `a\b`, `\n`, `\t`, `\r`, `\"`, `\a`, `\f`, `\v`, `\u0041`,
		`\\u0041`, `\ud83d\ude00`, `C:\new\table`, `C:\\new`, `\\server\share`, `$\frac{a}{b}$`, `^\d+\.\d+$`, `{"a":"b"}`, `{}`, `[]`, `[1,2]`, `null`, `true`, `false`, `42`, `-1`, `3.14`, `1e9`, `0`, `-`, `01`, `.`, `e`,
		`inf`, `NaN`, `"a" `, ` "a"`, ` 42 `, `"unterminated`, `unopened"`, `{"a":`, `<p>html &amp; "attr"='x'</p>`, `</script><script>alert(1)</script>`, `&lt;`, "é", "ü", "日本語", "😀", "👨‍👩‍👧", "\u2028", "\u2029", "\ufeffbom",
		"\ufffd", "\u00a0nbsp", "emoji 🎉 and \"quotes\" and \\ backslash\nnewline", `%s %d %%`, `$1 ${x}`, "'single'", "`backtick`", strings.Repeat("long ", 40), strings.Repeat(`\"`, 20), strings.Repeat("\"", 7),
		`a\`, `a\\`, `\"a\"`, `{"type":"Delete"}`, `","type":"Delete`, `\",\"type\":\"Delete`,
		// astral code points whose low sixteen bits are those of a character the writers treat on its own (U+2028, U+2029, quote,
		// backslash, newline, U+FFFD): a writer that looks at a truncated rune takes them for it
		"\U00012028", "\U00022029", "\U00102029", "\U00010022 \U0001005C \U0001000A \U0001FFFD \U0010FFFF", "a\U00012028b\U00022029c",
	}
	var printable strings.Builder
	for c := byte(0x20); c < 0x7f; c++ {
		printable.WriteByte(c)
	}
	return append(out, printable.String())
}()

func TestC06(t *testing.T) {
	r := ev.Open(t, "C06")
	defer r.Close(t)
	r.Rule("constants: ~95 valid UTF-8 texts (quotes, backslashes, escape look-alikes, control characters, JSON look-alikes, HTML, astral code points, separators) x name/summary/content/preferredUsername/source.content " +
		"of Object, Actor, Activity, Collection and Link, and of an Object with neither id nor type (alone and as the second member of a tag list) x {single untagged, single tagged, 2-language map, maps holding the untagged default value first / last, maps with text-less entries behind / in front of / between the others} x 5 codec entry pairs (every eighth cell again with DefaultLang = en); random: rapid.String and an escape-biased alphabet, length 1..200, every text-bearing " +
		"property of every type, maps of 2..4 distinct tags. Oracle: text bytes after decode == bytes before encode, set of (tag,text) pairs preserved for maps (JSON: a lone tagged value may return untagged). " +
		"value-pairs: the same texts and forms as a language list on its own through NaturalLanguageValues' MarshalJSON/UnmarshalJSON, encoding/json and GobEncode/GobDecode. " +
		"non-trivial = text holds a backslash, quote, control or non-BMP character or is a JSON/escape look-alike; distinct by property + form + codec + text")
	r.Assume("texts are non-empty valid UTF-8 (an entry with empty text is 'absent' under the documented normal form)")

	mkForms := func(s string) []ap.NaturalLanguageValues {
		return []ap.NaturalLanguageValues{
			{{Ref: ap.NilLangRef, Value: ap.Content(s)}},
			{{Ref: "en", Value: ap.Content(s)}},
			{{Ref: "en", Value: ap.Content(s)}, {Ref: "fr", Value: ap.Content("deuxième " + s)}},
			// the untagged default value inside a map, first and last
			{{Ref: ap.NilLangRef, Value: ap.Content(s)}, {Ref: "en", Value: ap.Content("second " + s)}},
			{{Ref: "en", Value: ap.Content("first " + s)}, {Ref: "fr", Value: ap.Content("deuxième")}, {Ref: ap.NilLangRef, Value: ap.Content(s)}},
			// entries without text (absent under the normal form) behind, in front of and between the entries that have one
			{{Ref: "en", Value: ap.Content(s)}, {Ref: "fr", Value: ap.Content("deuxième " + s)}, {Ref: "de", Value: ap.Content("")}},
			{{Ref: "de", Value: nil}, {Ref: "en", Value: ap.Content(s)}, {Ref: "it", Value: ap.Content("")}, {Ref: "fr", Value: ap.Content("deuxième " + s)}, {Ref: "pt", Value: nil}},
			// ... and maps in which exactly one entry has a text
			{{Ref: "en", Value: ap.Content(s)}, {Ref: "de", Value: ap.Content("")}},
			{{Ref: "de", Value: nil}, {Ref: "en", Value: ap.Content(s)}},
		}
	}
	enumTypes := map[string]bool{"Object": true, "Actor": true, "Activity": true, "Collection": true, "Link": true}
	if r.WantLayer("constants", true) {
		total, done := 0, 0
		for _, p := range c06Props {
			if !enumTypes[p.GoType] {
				continue
			}
			for ti, s := range c06Texts {
				for fi, nl := range mkForms(s) {
					if fi >= 5 && ti%4 != 0 && !r.Thorough() {
						continue // the forms with text-less entries: every fourth text in the quick tier, all in the thorough one
					}
					for ci := range c06Codecs {
						total++
						cell := fmt.Sprintf("%s.%s form=%d %s %q", p.GoType, p.Field, fi, c06Codecs[ci].name, s)
						if !r.WantCell(cell) {
							continue
						}
						done++
						ds := c06Check(p, nl, ci)
						if done%8 == 3 {
							// every eighth cell once more with the package's configurable default language set to the tag the forms use
							saved := ap.DefaultLang
							ap.DefaultLang = "en"
							for _, d := range c06Check(p, nl, ci) {
								d.Key += " default-lang"
								ds = append(ds, d)
							}
							ap.DefaultLang = saved
						}
						cls := c06TextClass(s)
						r.Case(cell, cls != "plain", "constants class="+cls, "constants codec="+c06Codecs[ci].name, "constants property="+p.Field)
						if done%1499 == 0 {
							r.Sample(cell, map[string]interface{}{"layer": "constants", "property": p.GoType + "." + p.Field, "codec": c06Codecs[ci].name, "text": s, "form": fi})
						}
						reportAll(r, "constants", cell, ds, cell)
					}
				}
			}
		}
		r.Cells(total, done)
		r.Exhaustive("constants", !r.Replaying())
	}

	// the property value on its own: a language list written and read back through its own MarshalJSON/UnmarshalJSON pair, through
	// encoding/json, and through its GobEncode/GobDecode pair (how the name/summary/content of an object is stored when it is stored alone)
	if r.WantLayer("value-pairs", true) {
		total, done := 0, 0
		for _, s := range c06Texts {
			for fi, nl := range mkForms(s) {
				for _, pair := range c06ValuePairs {
					total++
					cell := fmt.Sprintf("value form=%d %s %q", fi, pair, s)
					if !r.WantCell(cell) {
						continue
					}
					done++
					ds := c06ValueCheck(nl, pair)
					cls := c06TextClass(s)
					r.Case(cell, cls != "plain", "value-pairs class="+cls, "value-pairs pair="+pair)
					if done%199 == 0 {
						r.Sample(cell, map[string]interface{}{"layer": "value-pairs", "pair": pair, "text": s, "form": fi})
					}
					reportAll(r, "value-pairs", cell, ds, cell)
				}
			}
		}
		r.Cells(total, done)
		r.Exhaustive("value-pairs", !r.Replaying())
	}

	// ---- saved fuzz inputs (replays of FuzzC06 crashers)
	if r.WantLayer("corpus", true) {
		n := 0
		for _, f := range fuzzFiles("FuzzC06", "C06") {
			args, ok := readFuzzArgs(f)
			if !ok || len(args) != 4 || !r.WantCell(filepath.Base(f)) {
				continue
			}
			n++
			text, _ := args[0].(string)
			a, _ := args[1].(uint64)
			b, _ := args[2].(uint64)
			c, _ := args[3].(uint64)
			ds := c06FuzzOne(text, uint8(a), uint8(b), uint8(c))
			r.Case("corpus "+filepath.Base(f), true, "corpus")
			reportAll(r, "corpus", filepath.Base(f), ds, map[string]interface{}{"text": text})
		}
		r.Cells(n, n)
	}

	escAlpha := rapid.StringOfN(rapid.RuneFrom([]rune("\\\"/bfnrtuav0123456789{}[]:, \n\t\r\x00\x1f<>&'aZé😀\u2028")), 1, 60, -1)
	textG := rapid.OneOf(rapid.SampledFrom(c06Texts), escAlpha, rapid.StringN(1, 200, -1))
	tags := []ap.LangRef{"en", "fr", "de", "pt-BR", "zh-Hans", "en-GB"}
	r.Rapid(t, "random", r.Pick(5000, 30000), func(t *rapid.T) {
		p := c06Props[rapid.IntRange(0, len(c06Props)-1).Draw(t, "property")]
		var nl ap.NaturalLanguageValues
		text := func() string {
			s := textG.Draw(t, "text")
			if s == "" || !utf8.ValidString(s) {
				s = "x" + strings.ToValidUTF8(s, "?")
			}
			return s
		}
		switch rapid.IntRange(0, 3).Draw(t, "form") {
		case 0:
			nl = ap.NaturalLanguageValues{{Ref: ap.NilLangRef, Value: ap.Content(text())}}
		case 1:
			nl = ap.NaturalLanguageValues{{Ref: rapid.SampledFrom(tags).Draw(t, "tag"), Value: ap.Content(text())}}
		default:
			n := rapid.IntRange(2, 4).Draw(t, "n")
			off := rapid.IntRange(0, len(tags)-1).Draw(t, "off")
			for i := 0; i < n; i++ {
				nl = append(nl, ap.LangRefValue{Ref: tags[(off+i)%len(tags)], Value: ap.Content(text())})
			}
			if rapid.IntRange(0, 2).Draw(t, "untagged-in-map") == 0 {
				nl[rapid.IntRange(0, n-1).Draw(t, "untagged-at")].Ref = ap.NilLangRef
			}
		}
		ci := rapid.IntRange(0, len(c06Codecs)-1).Draw(t, "codec")
		ds := c06Check(p, nl, ci)
		vp := c06ValuePairs[rapid.IntRange(0, len(c06ValuePairs)-1).Draw(t, "valuepair")]
		ds = append(ds, c06ValueCheck(nl, vp)...)
		cls := "plain"
		for _, e := range nl {
			if c := c06TextClass(string(e.Value)); c != "plain" {
				cls = c
			}
		}
		canon := fmt.Sprintf("%s.%s %s %q", p.GoType, p.Field, c06Codecs[ci].name, fmt.Sprint(nl))
		form := "single"
		if len(nl) > 1 {
			form = "map"
		}
		r.Case(canon, cls != "plain", "random class="+cls, "random codec="+c06Codecs[ci].name, "random form="+form, "random property="+p.Field)
		r.Sample(canon, map[string]interface{}{"layer": "random", "property": p.GoType + "." + p.Field, "codec": c06Codecs[ci].name, "value": vocab.Dump(nl)})
		failUnknown(r, t, "random", ds, map[string]interface{}{"property": p.GoType + "." + p.Field, "codec": c06Codecs[ci].name, "value": vocab.Dump(nl)})
	})
}

// c06FuzzOne stores one text in one property, in one form, through one codec, and as a value on its own through one pair.
func c06FuzzOne(text string, prop, form, codec uint8) (ds []keyed) {
	if text == "" || !utf8.ValidString(text) {
		return nil // outside the domain (empty text is "absent"; the property speaks of valid UTF-8)
	}
	p := c06Props[int(prop)%len(c06Props)]
	var nl ap.NaturalLanguageValues
	switch form % 3 {
	case 0:
		nl = ap.NaturalLanguageValues{{Ref: ap.NilLangRef, Value: ap.Content(text)}}
	case 1:
		nl = ap.NaturalLanguageValues{{Ref: "en", Value: ap.Content(text)}}
	default:
		nl = ap.NaturalLanguageValues{{Ref: "en", Value: ap.Content(text)}, {Ref: "fr", Value: ap.Content("deuxième " + text)}}
	}
	ds = append(ds, c06Check(p, nl, int(codec)%len(c06Codecs))...)
	ds = append(ds, c06ValueCheck(nl, c06ValuePairs[int(codec)%len(c06ValuePairs)])...)
	return ds
}

// FuzzC06 is the native coverage-guided target (thorough tier): the text is the input, three selectors pick property, form and codec.
func FuzzC06(f *testing.F) {
	for i, s := range c06Texts {
		f.Add(s, uint8(i), uint8(i/3), uint8(i/7))
	}
	known := ev.LoadFindings("C06")
	f.Fuzz(func(t *testing.T, text string, prop, form, codec uint8) {
		if len(text) > 1<<12 {
			return
		}
		for _, d := range c06FuzzOne(text, prop, form, codec) {
			if known.Peek(d.Key) {
				continue
			}
			t.Fatalf("VIOLATION-KEY property=C06 key=%q detail=%q", d.Key, d.Detail)
		}
	})
}
