package props

import (
	"fmt"
	"reflect"
	"strings"
	"testing"

	ap "github.com/go-ap/activitypub"
	"pgregory.net/rapid"
	"verif/harness/ev"
	"verif/harness/oracle"
	"verif/harness/vocab"
)

// C18 — Property copy/update merges without losing data and rejects mismatches.

var c18Types = []string{"Object", "Actor", "Collection", "CollectionPage", "OrderedCollection", "OrderedCollectionPage"}

// merged properties listed in the property's quantifier (Go field names)
var c18Merged = map[string]bool{}

func init() {
	for _, n := range strings.Fields("Name Summary Content MediaType Attachment AttributedTo Audience Context Generator Icon Image InReplyTo Location Preview Replies Tag URL " +
		"To Bto CC BCC StartTime EndTime Inbox Outbox Following Followers Liked PreferredUsername First Last Items OrderedItems PartOf Next Prev") {
		c18Merged[n] = true
	}
}

func c18IsSet(v reflect.Value) bool {
	if v.IsZero() {
		return false
	}
	if v.Kind() == reflect.Slice && v.Len() == 0 {
		return false
	}
	return true
}

func c18Same(a, b reflect.Value) bool {
	return len(vocab.ContentDiff(a.Interface(), b.Interface())) == 0
}

var c18LastErr string // the error of the most recent refusal (detail text only)

// c18Check runs CopyItemProperties(to, from) and evaluates the merge rule.  mustRefuse != "" names the reason a refusal is required.
func c18Check(to, from ap.Item, mustRefuse string, weak bool) (ds []keyed, outcome string) {
	toSnap, fromSnap := vocab.CloneItem(to), vocab.CloneItem(from)
	var err error
	pi := evSafe(func() { _, err = ap.CopyItemProperties(to, from) })
	gt := vocab.GoTypeName(to)
	if pi != nil {
		reason := mustRefuse
		if reason == "" {
			reason = "accepted-domain"
		}
		return []keyed{{"copy panic@" + pi.Frame + " " + reason, pi.Value}}, "panic"
	}
	if from != nil && !vocab.IsEmptyItem(from) {
		if d := vocab.ContentDiff(fromSnap, from); len(d) > 0 {
			ds = append(ds, keyed{"copy from-modified " + gt, "`from` was modified: " + strings.Join(d, "; ")})
		}
	}
	if mustRefuse != "" {
		if err == nil {
			ds = append(ds, keyed{"copy refuse " + mustRefuse, "no error although a refusal is required (" + mustRefuse + ")"})
		}
		if to != nil && !vocab.IsEmptyItem(to) {
			if d := vocab.ContentDiff(toSnap, to); len(d) > 0 {
				ds = append(ds, keyed{"copy refuse " + mustRefuse + " to-modified", "`to` was modified although the copy must be refused: " + strings.Join(d, "; ")})
			}
		}
		return ds, "refused"
	}
	if err != nil {
		c18LastErr = err.Error()
		// whatever the reason for the refusal: a refused copy leaves `to` as it was
		if to != nil && !vocab.IsEmptyItem(to) {
			if d := vocab.ContentDiff(toSnap, to); len(d) > 0 {
				ds = append(ds, keyed{"copy error to-modified " + gt, "the copy was refused (" + err.Error() + ") but `to` was modified: " + strings.Join(d, "; ")})
			}
		}
		return ds, "error"
	}
	if weak {
		// pairs for which the statement fixes no outcome (empty-typed `to`, foreign `from`, typed nils): only "never panics" and "`from` unchanged"
		return ds, "accepted-unasserted"
	}
	tv, ok1 := vocab.StructOf(to)
	fv, ok2 := vocab.StructOf(from)
	bv, _ := vocab.StructOf(toSnap)
	if !ok1 || !ok2 {
		return ds, "ok"
	}
	if tv.FieldByName("ID").String() != fv.FieldByName("ID").String() {
		ds = append(ds, keyed{"copy " + gt + ".ID", fmt.Sprintf("after a successful merge to.id = %q, from.id = %q", tv.FieldByName("ID").String(), fv.FieldByName("ID").String())})
	}
	if tv.FieldByName("Type").String() != fv.FieldByName("Type").String() {
		ds = append(ds, keyed{"copy " + gt + ".Type", fmt.Sprintf("after a successful merge to.type = %q, from.type = %q", tv.FieldByName("Type").String(), fv.FieldByName("Type").String())})
	}
	for _, f := range vocab.Fields(tv.Type()) {
		if f.Kind == vocab.KID || f.Kind == vocab.KType {
			continue
		}
		after, before := tv.Field(f.Index), bv.Field(f.Index)
		fromF := fv.FieldByName(f.Name)
		hasFrom := fromF.IsValid() && fromF.Type() == after.Type()
		pattern := "only-to"
		switch {
		case c18IsSet(before) && hasFrom && c18IsSet(fromF):
			pattern = "both"
		case hasFrom && c18IsSet(fromF):
			pattern = "only-from"
		case !c18IsSet(before):
			pattern = "neither"
		}
		cell := fmt.Sprintf("copy %s.%s %s", gt, f.Name, pattern)
		if f.Kind == vocab.KSource {
			// a source is a pair of properties: each of them holds what it held before or what `from` has
			for _, sub := range []string{"MediaType", "Content"} {
				a, b := after.FieldByName(sub), before.FieldByName(sub)
				okv := c18Same(a, b) || (hasFrom && c18Same(a, fromF.FieldByName(sub)))
				if !okv {
					ds = append(ds, keyed{cell, fmt.Sprintf("source.%s is neither what `to` had nor what `from` has: %s", sub, vocab.Dump(a.Interface()))})
				}
			}
			if c18IsSet(before) && !(hasFrom && c18IsSet(fromF)) && !c18Same(after, before) {
				ds = append(ds, keyed{cell, "source set in `to` and unset in `from` was lost: " + vocab.Dump(before.Interface()) + " -> " + vocab.Dump(after.Interface())})
			}
			continue
		}
		sameBefore := c18Same(after, before)
		sameFrom := hasFrom && c18Same(after, fromF)
		if !sameBefore && !sameFrom {
			ds = append(ds, keyed{cell, fmt.Sprintf("after the merge the property is neither what `to` had (%s) nor what `from` has (%s): %s",
				clipStr(vocab.Dump(before.Interface()), 200), clipStr(dumpOrNone(fromF, hasFrom), 200), clipStr(vocab.Dump(after.Interface()), 200))})
			continue
		}
		if c18IsSet(before) && !(hasFrom && c18IsSet(fromF)) && !sameBefore {
			ds = append(ds, keyed{cell, "a property set in `to` and unset in `from` was lost: " + clipStr(vocab.Dump(before.Interface()), 200)})
			continue
		}
		if c18Merged[f.Name] && hasFrom && c18IsSet(fromF) && !sameFrom {
			ds = append(ds, keyed{cell, fmt.Sprintf("merged property set in `from` does not have from's value: to had %s, from has %s, after %s",
				clipStr(vocab.Dump(before.Interface()), 200), clipStr(vocab.Dump(fromF.Interface()), 200), clipStr(vocab.Dump(after.Interface()), 200))})
		}
	}
	return ds, "ok"
}

func dumpOrNone(v reflect.Value, ok bool) string {
	if !ok {
		return "<no such property>"
	}
	return vocab.Dump(v.Interface())
}

func TestC18(t *testing.T) {
	r := ev.Open(t, "C18")
	defer r.Close(t)
	r.Rule("cells: for Object, Actor and the four collection types, every field x {set only in to, only in from, in both with different values} with the same id and type on both sides; " +
		"(a refusal of two values of one supported type with one id is reported: the refusal conditions are listed in the statement); refusals: untyped nil on either side, non-equivalent ids, differing types, unsupported types; random: independent random property subsets on both sides (ids presented as equivalent variants), " +
		"plus pairs that need not be refused but must not panic or touch `from` (typed nils, empty-typed `to` with a foreign `from`, Go-type mismatches). " +
		"Oracle: field-wise merge rule from the statement (after in {before, from}; set-in-to & unset-in-from is kept; listed merged properties set in from are taken), to.id/type == from's, " +
		"`from` bit-identical to its snapshot, refusals leave `to` bit-identical. non-trivial = at least one property set only in `to` and one only in `from`; distinct by the dumps of both sides")

	mk := func(gt string, id ap.IRI, typ ap.ActivityVocabularyType) (ap.Item, reflect.Value) {
		p := reflect.New(vocab.StructType(gt))
		p.Elem().FieldByName("ID").SetString(string(id))
		p.Elem().FieldByName("Type").SetString(string(typ))
		return p.Interface().(ap.Item), p.Elem()
	}

	if r.WantLayer("cells", true) {
		total, done := 0, 0
		for _, gt := range c18Types {
			st := vocab.StructType(gt)
			for _, f := range vocab.Fields(st) {
				if f.Kind == vocab.KID || f.Kind == vocab.KType {
					continue
				}
				for _, pattern := range []string{"only-to", "only-from", "both"} {
					c := &vocab.Counter{}
					shapes := vocab.ShapesFor(f, c, true)
					if len(shapes) < 1 {
						continue
					}
					other := vocab.ShapesFor(f, c, true) // fresh ids: a different value of the same shapes
					if f.Kind == vocab.KNLV {
						// nor the text properties that are set but say nothing
						shapes, other = shapes[2:], other[2:]
					}
					if f.Kind == vocab.KItems {
						// not the set-but-empty list: whether it counts as set (and replaces what `to` has) or as unset is not for this check to say
						shapes, other = shapes[1:], other[1:]
						// a list is whatever its owner put there: the same member twice, a nil entry between members.  A merge takes the list, it does not edit it
						for _, l := range []*[]vocab.Shaped{&shapes, &other} {
							a, b := c.ID("dup"), c.ID("dup")
							*l = append(*l, vocab.Shaped{Name: "list-repeated-member", V: reflect.ValueOf(ap.ItemCollection{a, b, &ap.Object{ID: a, Type: ap.NoteType}, a, nil, b})})
						}
					}
					for si := range shapes {
						total++
						cell := fmt.Sprintf("%s.%s %s %s", gt, f.Name, pattern, shapes[si].Name)
						if !r.WantCell(cell) {
							continue
						}
						done++
						id := ap.IRI("https://example.com/things/1")
						to, tv := mk(gt, id, vocab.DefaultType[gt])
						from, fv := mk(gt, id, vocab.DefaultType[gt])
						if pattern != "only-from" {
							tv.Field(f.Index).Set(shapes[si].V)
						}
						if pattern != "only-to" {
							ov := other[(si+1)%len(other)].V
							if f.Kind == vocab.KBool || len(other) == 1 {
								ov = other[si].V
							}
							fv.Field(f.Index).Set(ov)
						}
						canon := cell + " " + vocab.Dump(to) + " <- " + vocab.Dump(from)
						ds, outcome := c18Check(to, from, "", false)
						if outcome == "error" {
							// the statement lists when a merge is refused; two values of one supported type with the same id are none of these
							// cases, and a merge that refuses them makes every clause about successful merges vacuous
							ds = append(ds, keyed{"copy unexpected-refusal " + gt, "CopyItemProperties refused two " + gt + " values with the same id and type: " + c18LastErr})
						}
						r.Case(canon, true, "cells "+pattern, "cells type="+gt)
						if done%173 == 0 {
							r.Sample(canon, map[string]interface{}{"layer": "cells", "cell": cell, "to": vocab.Dump(to), "from": vocab.Dump(from)})
						}
						reportAll(r, "cells", cell, ds, canon)
					}
				}
			}
		}
		r.Cells(total, done)
		r.Exhaustive("cells", !r.Replaying())
	}

	// shared storage: one list value assigned to several list properties of `to` and of `from` (a caller that built its recipients once).
	// A merge that writes new members into an old backing array changes the other properties that share it.
	if r.WantLayer("aliasing", true) {
		total, done := 0, 0
		for _, gt := range c18Types {
			st := vocab.StructType(gt)
			var lists []vocab.Field
			for _, f := range vocab.Fields(st) {
				if f.Kind == vocab.KItems {
					lists = append(lists, f)
				}
			}
			for i := range lists {
				for j := range lists {
					if i == j {
						continue
					}
					for _, fromShares := range []bool{false, true} {
						total++
						cell := fmt.Sprintf("%s replaced=%s sharing=%s from-shares=%v", gt, lists[i].Name, lists[j].Name, fromShares)
						if !r.WantCell(cell) {
							continue
						}
						done++
						id := ap.IRI("https://example.com/things/1")
						to, tv := mk(gt, id, vocab.DefaultType[gt])
						from, fv := mk(gt, id, vocab.DefaultType[gt])
						shared := make(ap.ItemCollection, 2, 4)
						shared[0], shared[1] = ap.IRI("https://example.com/shared/a"), ap.IRI("https://example.com/shared/b")
						tv.Field(lists[i].Index).Set(reflect.ValueOf(shared)) // replaced by from's value
						tv.Field(lists[j].Index).Set(reflect.ValueOf(shared)) // not mentioned by from: must keep a, b
						fv.Field(lists[i].Index).Set(reflect.ValueOf(ap.ItemCollection{ap.IRI("https://example.com/new/c")}))
						if fromShares {
							// from holds the shared list under a third property when there is one, else under the sharing one
							k := (j + 1) % len(lists)
							if k == i {
								k = (k + 1) % len(lists)
							}
							fv.Field(lists[k].Index).Set(reflect.ValueOf(shared))
						}
						canon := cell + " " + vocab.Dump(to) + " <- " + vocab.Dump(from)
						ds, outcome := c18Check(to, from, "", false)
						if outcome == "error" {
							ds = append(ds, keyed{"copy unexpected-refusal " + gt, "CopyItemProperties refused two " + gt + " values with the same id and type: " + c18LastErr})
						}
						r.Case(canon, true, "aliasing type="+gt)
						if done%97 == 0 {
							r.Sample(canon, map[string]interface{}{"layer": "aliasing", "cell": cell})
						}
						reportAll(r, "aliasing", cell, ds, canon)
					}
				}
			}
		}
		r.Cells(total, done)
		r.Exhaustive("aliasing", !r.Replaying())
	}

	if r.WantLayer("refusals", true) {
		type rc struct {
			name, reason string
			to, from     ap.Item
		}
		obj := func(id, typ string) ap.Item {
			return &ap.Object{ID: ap.IRI(id), Type: ap.ActivityVocabularyType(typ), Name: ap.DefaultNaturalLanguageValue("n"), To: ap.ItemCollection{ap.IRI("https://example.com/a")}}
		}
		var cases []rc
		cases = append(cases,
			rc{"nil-to", "nil-to", nil, obj("https://example.com/1", "Note")},
			rc{"nil-from", "nil-from", obj("https://example.com/1", "Note"), nil},
			rc{"nil-both", "nil-to", nil, nil},
			rc{"id-host", "ids-differ", obj("https://example.com/1", "Note"), obj("https://other.example.com/1", "Note")},
			rc{"id-path", "ids-differ", obj("https://example.com/1", "Note"), obj("https://example.com/2", "Note")},
			rc{"id-query", "ids-differ", obj("https://example.com/1?a=1", "Note"), obj("https://example.com/1?a=2", "Note")},
			rc{"id-query-subset", "ids-differ", obj("https://example.com/1", "Note"), obj("https://example.com/1?a=1", "Note")},
			rc{"id-query-superset", "ids-differ", obj("https://example.com/1?a=1", "Note"), obj("https://example.com/1", "Note")},
			rc{"id-repeated-key", "ids-differ", obj("https://example.com/1?a=1", "Note"), obj("https://example.com/1?a=1&a=2", "Note")},
			rc{"id-repeated-key-rev", "ids-differ", obj("https://example.com/1?a=1&a=2", "Note"), obj("https://example.com/1?a=1", "Note")},
			rc{"id-port", "ids-differ", obj("https://example.com/1", "Note"), obj("https://example.com:8443/1", "Note")},
			rc{"id-longer-path", "ids-differ", obj("https://example.com/1", "Note"), obj("https://example.com/1/2", "Note")},
			rc{"id-empty-vs-set", "ids-differ", obj("", "Note"), obj("https://example.com/2", "Note")},
			rc{"type-differs", "types-differ", obj("https://example.com/1", "Note"), obj("https://example.com/1", "Article")},
			rc{"type-differs-from-empty", "types-differ", obj("https://example.com/1", "Note"), obj("https://example.com/1", "")},
		)
		for _, ti := range vocab.GroundTruth {
			supported := ti.Family == vocab.FActor && !ti.Generic || ti.Family == vocab.FCollection || ti.Family == vocab.FObject && !ti.Generic
			if supported {
				continue
			}
			to, _ := mk(ti.GoType, "https://example.com/1", ti.Name)
			from, _ := mk(ti.GoType, "https://example.com/1", ti.Name)
			cases = append(cases, rc{"unsupported-" + string(ti.Name), "unsupported-type", to, from})
		}
		// `to` without a type (allowed) and `from` of a type that is not supported, or held in a struct of another family: whether such a
		// pair is refused the statement leaves open - but a refusal must not have touched `to` first
		for _, ti := range vocab.GroundTruth {
			from, _ := mk(ti.GoType, "https://example.com/1", ti.Name)
			for _, toType := range []string{"Object", "Actor", "Collection"} {
				to, tv := mk(toType, "https://example.com/1", "")
				tv.FieldByName("Name").Set(reflect.ValueOf(ap.DefaultNaturalLanguageValue("kept")))
				cases = append(cases, rc{"untyped-" + toType + "-from-" + string(ti.Name), "", to, from})
			}
		}
		done := 0
		for _, c := range cases {
			if !r.WantCell(c.name) {
				continue
			}
			done++
			ds, _ := c18Check(c.to, c.from, c.reason, c.reason == "")
			r.Case("refusal "+c.name, true, "refusals "+c.reason)
			reportAll(r, "refusals", c.name, ds, c.name)
		}
		r.Cells(len(cases), done)
		r.Exhaustive("refusals", !r.Replaying())
	}

	r.Rapid(t, "random", r.Pick(3000, 30000), func(t *rapid.T) {
		gt := rapid.SampledFrom(c18Types).Draw(t, "gotype")
		g := vocab.NewGen(t, vocab.Opts{MaxDepth: 1, Gob: true, MaxNodes: 8, Density: []int{10, 25, 50, 50, 75}})
		to := g.Value(gt, 1, false)
		from := g.Value(gt, 1, false)
		tv, _ := vocab.StructOf(to)
		fv, _ := vocab.StructOf(from)
		mode := rapid.SampledFrom([]string{"ok", "ok", "ok", "ok", "ok", "ok", "ids-differ", "types-differ", "nil-to", "nil-from", "typed-nil-to", "typed-nil-from", "foreign-from", "empty-to-type", "unsupported"}).Draw(t, "mode")
		// same identity unless the mode says otherwise
		id := tv.FieldByName("ID").String()
		fromID := id
		switch rapid.IntRange(0, 3).Draw(t, "idvariant") {
		case 0:
			if strings.HasPrefix(id, "https://") {
				fromID = "http://" + strings.TrimPrefix(id, "https://")
			}
		case 1:
			fromID = strings.Replace(id, "example", "EXAMPLE", 1)
		}
		fv.FieldByName("ID").SetString(fromID)
		fv.FieldByName("Type").SetString(tv.FieldByName("Type").String())
		refuse := ""
		switch mode {
		case "ids-differ":
			fv.FieldByName("ID").SetString(string(g.ID("other")))
			refuse = "ids-differ"
		case "types-differ":
			names := vocab.NamesFor(gt)
			if len(names) > 1 {
				for _, n := range names {
					if string(n) != tv.FieldByName("Type").String() {
						fv.FieldByName("Type").SetString(string(n))
						refuse = "types-differ"
						break
					}
				}
			} else {
				fv.FieldByName("Type").SetString("Note")
				refuse = "types-differ"
			}
		case "nil-to":
			to, refuse = nil, "nil-to"
		case "nil-from":
			from, refuse = nil, "nil-from"
		case "typed-nil-to":
			to, refuse = reflect.Zero(reflect.PointerTo(vocab.StructType(gt))).Interface().(ap.Item), "nil-to"
		case "typed-nil-from":
			from, refuse = reflect.Zero(reflect.PointerTo(vocab.StructType(gt))).Interface().(ap.Item), "nil-from"
		case "foreign-from":
			ft := rapid.SampledFrom([]string{"Activity", "Place", "Link", "Question", "Actor", "Collection"}).Draw(t, "foreign")
			from = g.Value(ft, 1, false)
			f2, _ := vocab.StructOf(from)
			f2.FieldByName("ID").SetString(id)
			tv.FieldByName("Type").SetString("")
		case "empty-to-type":
			tv.FieldByName("Type").SetString("")
		case "unsupported":
			ut := rapid.SampledFrom([]string{"Activity", "IntransitiveActivity", "Question", "Link"}).Draw(t, "unsupported")
			to = g.Value(ut, 1, false)
			from = vocab.CloneItem(to)
			refuse = "unsupported-type"
		}
		// the statement requires a refusal for non-equivalent ids only; equivalence is decided by the reference normaliser
		if refuse == "" && to != nil && from != nil && !vocab.IsEmptyItem(to) && !vocab.IsEmptyItem(from) {
			if oracle.IDKey(string(to.GetLink())) != oracle.IDKey(string(from.GetLink())) {
				refuse = "ids-differ"
			}
		}
		canon := mode + " " + vocab.Dump(to) + " <- " + vocab.Dump(from)
		onlyTo, onlyFrom := 0, 0
		if t2, ok := vocab.StructOf(to); ok {
			if f2, ok := vocab.StructOf(from); ok && t2.Type() == f2.Type() {
				for _, f := range vocab.Fields(t2.Type()) {
					if f.Kind == vocab.KID || f.Kind == vocab.KType {
						continue
					}
					a, b := c18IsSet(t2.Field(f.Index)), c18IsSet(f2.Field(f.Index))
					if a && !b {
						onlyTo++
					}
					if b && !a {
						onlyFrom++
					}
				}
			}
		}
		ds, outcome := c18Check(to, from, refuse, mode == "foreign-from" || mode == "empty-to-type")
		r.Case(canon, outcome == "ok" && onlyTo >= 1 && onlyFrom >= 1, "random mode="+mode, "random outcome="+outcome, "random type="+gt)
		r.Sample(canon, map[string]interface{}{"layer": "random", "mode": mode, "to": vocab.Dump(to), "from": vocab.Dump(from), "outcome": outcome})
		failUnknown(r, t, "random", ds, map[string]interface{}{"mode": mode, "to": vocab.Dump(to), "from": vocab.Dump(from)})
	})
}
