package props

import (
	"fmt"
	"reflect"
	"sort"
	"strings"
	"testing"
	"time"

	ap "github.com/go-ap/activitypub"
	"pgregory.net/rapid"
	"verif/harness/ev"
	"verif/harness/vocab"
)

// C17 — Timestamp ordering is a strict weak order consistent with publication time.

type c17Item struct {
	name string
	it   ap.Item
	isNl bool      // nil-like: ranks before any object
	key  time.Time // later of published/updated
}

func c17Key(pub, upd time.Time) time.Time {
	if upd.After(pub) {
		return upd
	}
	return pub
}

// reference comparator written from the statement
func c17Less(a, b c17Item) bool {
	switch {
	case a.isNl:
		return !b.isNl
	case b.isNl:
		return false
	}
	return a.key.After(b.key)
}

func c17Call(a, b c17Item) (res bool, key, detail string) {
	pi := evSafe(func() { res = ap.ItemOrderTimestamp(a.it, b.it) })
	if pi != nil {
		return false, "order panic@" + pi.Frame, fmt.Sprintf("ItemOrderTimestamp(%s, %s) panicked: %s", a.name, b.name, pi.Value)
	}
	return res, "", ""
}

// objects of every object-like type carrying (published, updated), pointer and value forms
var c17Types = []string{"Object", "Actor", "Activity", "IntransitiveActivity", "Question", "Collection", "CollectionPage", "OrderedCollection",
	"OrderedCollectionPage", "Place", "Profile", "Relationship", "Tombstone"}

func c17Make(goType string, value bool, pub, upd time.Time, id string) ap.Item {
	p := reflect.New(vocab.StructType(goType))
	p.Elem().FieldByName("ID").SetString(id)
	p.Elem().FieldByName("Type").SetString(string(vocab.DefaultType[goType]))
	p.Elem().FieldByName("Published").Set(reflect.ValueOf(pub))
	p.Elem().FieldByName("Updated").Set(reflect.ValueOf(upd))
	// the other instants an object can carry say nothing about when it was published: they are set far away from both
	// (later for one half of the items, earlier for the other) and must not move the item
	far := time.Date(2093, 1, 2, 3, 4, 5, 0, time.UTC)
	if (len(id)+len(goType))%2 == 1 {
		far = time.Date(1953, 1, 2, 3, 4, 5, 0, time.UTC)
	}
	for _, n := range []string{"StartTime", "EndTime", "Deleted"} {
		if f := p.Elem().FieldByName(n); f.IsValid() && f.Type() == reflect.TypeOf(far) {
			f.Set(reflect.ValueOf(far))
		}
	}
	// what an item embeds has its own instants, which are not the item's: an activity is as old as it is, not as old as what it wraps
	for _, n := range []string{"Object", "Actor", "Target", "Attachment", "InReplyTo", "Replies", "First"} {
		if f := p.Elem().FieldByName(n); f.IsValid() && f.Kind() == reflect.Interface {
			var inner ap.Item = &ap.Object{ID: ap.IRI(id + "/embedded-in-" + strings.ToLower(n)), Type: ap.NoteType, Published: far, Updated: far.Add(time.Hour)}
			f.Set(reflect.ValueOf(&inner).Elem())
		}
	}
	if value {
		return p.Elem().Interface().(ap.Item)
	}
	return p.Interface().(ap.Item)
}

func TestC17(t *testing.T) {
	r := ev.Open(t, "C17")
	defer r.Close(t)
	r.Rule("lattice: all ordered triples over 36 objects (published x updated from {zero, T, T in another zone, T+1h, T-1h, T+1h in another zone}) + nil + typed nil, under three identity policies " +
		"(pairwise distinct ids over all Go types; one id and type for all = versions of one object; no ids); " +
		"laws: irreflexive, asymmetric, transitive, transitive incomparability, agreement with the reference comparator (later of published/updated, nil before any object); " +
		"every item also carries startTime/endTime (a Tombstone its deleted instant) decades after or before its published/updated, and embeds objects with instants of their own in object/actor/target/attachment/inReplyTo/replies/first, none of which may move it; random: objects of all 13 object-like types in pointer and value forms, random instants, plus sorting a permutation with sort.SliceStable vs the reference order. " +
		"non-trivial triple = >= 2 distinct keys and >= 1 object whose updated is later than published; distinct by the triple")

	t0 := time.Date(2023, 5, 6, 7, 8, 9, 0, time.UTC)
	zone := time.FixedZone("plus5", 5*3600)
	inst := []struct {
		n string
		t time.Time
	}{
		{"zero", time.Time{}}, {"T", t0}, {"T@+5", t0.In(zone)}, {"T+1h", t0.Add(time.Hour)}, {"T-1h", t0.Add(-time.Hour)}, {"T+1h@+5", t0.Add(time.Hour).In(zone)},
		// an instant before the zero one (what "0001-01-01T00:00:00+01:00" decodes to): the zero instant is the later of the two
		{"zero-1h", time.Time{}.Add(-time.Hour)},
		// and one later than any calendar a wire format can write: nil still ranks before the object that carries it
		{"year12000", time.Date(12000, 1, 1, 0, 0, 0, 0, time.UTC)},
	}
	// identity policies: distinct ids over all Go types; one id and one type for all (versions of one object, so that
	// identity-based equality holds between items with different instants); no ids at all
	total, totalDone, allGood := 0, 0, true
	for _, policy := range []string{"distinct", "same-id", "no-id"} {
		var items []c17Item
		for i, p := range inst {
			for j, u := range inst {
				gt := c17Types[(i*len(inst)+j)%len(c17Types)]
				id := fmt.Sprintf("https://example.com/o/%d-%d", i, j)
				pre := ""
				switch policy {
				case "same-id":
					gt, id, pre = "Object", "https://example.com/o/same", "same-id "
				case "no-id":
					gt, id, pre = "Object", "", "no-id "
				}
				items = append(items, c17Item{fmt.Sprintf("%s%s{pub=%s,upd=%s}", pre, gt, p.n, u.n), c17Make(gt, false, p.t, u.t, id), false, c17Key(p.t, u.t)})
			}
		}
		items = append(items, c17Item{"nil", nil, true, time.Time{}}, c17Item{"(*Object)(nil)", (*ap.Object)(nil), true, time.Time{}})

		if r.WantLayer("lattice", true) {
			n := len(items)
			// pair table first (also checks agreement with the reference)
			less := make([][]bool, n)
			bad := false
			for i := range items {
				less[i] = make([]bool, n)
				for j := range items {
					cell := items[i].name + " < " + items[j].name
					res, key, detail := c17Call(items[i], items[j])
					if key != "" {
						r.Report("lattice", cell, key, detail, cell)
						bad = true
						continue
					}
					less[i][j] = res
					if want := c17Less(items[i], items[j]); res != want {
						cls := "objects"
						if items[i].isNl || items[j].isNl {
							cls = "nil"
						}
						if policy != "distinct" && cls == "objects" {
							cls = "objects " + policy
						}
						r.Report("lattice", cell, "order model "+cls, fmt.Sprintf("ItemOrderTimestamp(%s, %s) = %v, reference %v", items[i].name, items[j].name, res, want), cell)
					}
				}
			}
			triples := 0
			if !bad {
				for i := range items {
					if less[i][i] {
						r.Report("lattice", items[i].name, "order irreflexive", "less("+items[i].name+", itself) is true", items[i].name)
					}
					for j := range items {
						if less[i][j] && less[j][i] {
							r.Report("lattice", items[i].name+" "+items[j].name, "order asymmetric", fmt.Sprintf("both less(%s,%s) and the converse", items[i].name, items[j].name), nil)
						}
						for k := range items {
							triples++
							cell := items[i].name + " " + items[j].name + " " + items[k].name
							if less[i][j] && less[j][k] && !less[i][k] {
								r.Report("lattice", cell, "order transitive", "a<b, b<c but not a<c for "+cell, cell)
							}
							incomp := func(x, y int) bool { return !less[x][y] && !less[y][x] }
							if incomp(i, j) && incomp(j, k) && !incomp(i, k) {
								r.Report("lattice", cell, "order incomparability-transitive", "a~b, b~c but not a~c for "+cell, cell)
							}
							keys := map[int64]bool{}
							upd := false
							for _, x := range []int{i, j, k} {
								if !items[x].isNl {
									keys[items[x].key.UnixNano()] = true
									sv, _ := vocab.StructOf(items[x].it)
									if sv.FieldByName("Updated").Interface().(time.Time).After(sv.FieldByName("Published").Interface().(time.Time)) {
										upd = true
									}
								}
							}
							r.Case(cell, len(keys) >= 2 && upd, "lattice triples")
							if triples%9001 == 0 {
								r.Sample(cell, map[string]interface{}{"layer": "lattice", "a": items[i].name, "b": items[j].name, "c": items[k].name,
									"a<b": less[i][j], "b<c": less[j][k], "a<c": less[i][k]})
							}
						}
					}
				}
			}
			total += n * n * n
			totalDone += triples
			allGood = allGood && !bad
		}
	}
	if r.WantLayer("lattice", true) {
		r.Cells(total, totalDone)
		r.Exhaustive("lattice", allGood)
	}

	// types: what an object's type property says has no part in its rank - every struct type that carries instants under every
	// vocabulary type name (its own, another family's, a link's, none, one outside the vocabulary), an earlier and a later one of
	// each against each other and against a plain note in between
	if r.WantLayer("types", true) {
		names := []string{"", "Emoji"}
		for _, ti := range vocab.GroundTruth {
			names = append(names, string(ti.Name))
		}
		ref := c17Item{"Note@T+30m", c17Make("Object", false, t0.Add(30*time.Minute), time.Time{}, "https://example.com/o/ref"), false, t0.Add(30 * time.Minute)}
		n := 0
		for _, gt := range c17Types {
			for _, tn := range names {
				cell := fmt.Sprintf("types %s[%s]", gt, tn)
				if !r.WantCell(cell) {
					continue
				}
				n++
				mk := func(tag string, pub, upd time.Time) c17Item {
					it := c17Make(gt, false, pub, upd, "https://example.com/o/typed-"+tag)
					reflect.ValueOf(it).Elem().FieldByName("Type").SetString(tn)
					return c17Item{fmt.Sprintf("%s[%s]{%s}", gt, tn, tag), it, false, c17Key(pub, upd)}
				}
				early, late := mk("early", t0, time.Time{}), mk("late", t0.Add(-time.Hour), t0.Add(time.Hour))
				r.Case(cell, true, "types")
				for _, pr := range [][2]c17Item{{late, early}, {early, late}, {late, ref}, {ref, late}, {early, ref}, {ref, early}, {early, early}} {
					res, key, detail := c17Call(pr[0], pr[1])
					if key != "" {
						r.Report("types", cell, key, detail, cell)
					} else if want := c17Less(pr[0], pr[1]); res != want {
						r.Report("types", cell, "order model types", fmt.Sprintf("ItemOrderTimestamp(%s, %s) = %v, reference %v", pr[0].name, pr[1].name, res, want), cell)
					}
				}
			}
		}
		r.Cells(n, n)
		r.Exhaustive("types", !r.Replaying())
	}

	r.Rapid(t, "random", r.Pick(10000, 50000), func(t *rapid.T) {
		n := rapid.IntRange(2, 7).Draw(t, "n")
		idPolicy := rapid.SampledFrom([]string{"distinct", "distinct", "same-id", "no-id"}).Draw(t, "ids")
		var its []c17Item
		for i := 0; i < n; i++ {
			switch rapid.IntRange(0, 9).Draw(t, "kind") {
			case 0:
				its = append(its, c17Item{"nil", nil, true, time.Time{}})
			case 1:
				gt := rapid.SampledFrom(c17Types).Draw(t, "niltype")
				its = append(its, c17Item{"(*" + gt + ")(nil)", reflect.Zero(reflect.PointerTo(vocab.StructType(gt))).Interface().(ap.Item), true, time.Time{}})
			default:
				g := vocab.NewGen(t, vocab.Opts{Gob: true})
				var pub, upd time.Time
				if rapid.IntRange(0, 3).Draw(t, "pubset") > 0 {
					pub = g.Time()
				}
				switch rapid.IntRange(0, 3).Draw(t, "updset") {
				case 0:
				case 1:
					upd = pub.Add(time.Duration(rapid.Int64Range(-3, 3).Draw(t, "delta")) * time.Hour).In(time.FixedZone("", 3600))
				default:
					upd = g.Time()
				}
				gt := rapid.SampledFrom(c17Types).Draw(t, "gotype")
				val := rapid.IntRange(0, 3).Draw(t, "valueform") == 0
				id := fmt.Sprintf("https://example.com/r/%d", i)
				if idPolicy != "distinct" {
					// versions of one object / anonymous objects: one Go type, one (or no) id
					gt = "Object"
					id = map[string]string{"same-id": "https://example.com/r/same", "no-id": ""}[idPolicy]
				}
				its = append(its, c17Item{fmt.Sprintf("%s %s{pub=%s,upd=%s,val=%v}", idPolicy, gt, pub.Format(time.RFC3339Nano), upd.Format(time.RFC3339Nano), val),
					c17Make(gt, val, pub, upd, id), false, c17Key(pub, upd)})
			}
		}
		var ds []keyed
		names := ""
		for _, a := range its {
			names += a.name + "; "
			for _, b := range its {
				res, key, detail := c17Call(a, b)
				if key != "" {
					ds = append(ds, keyed{key, detail})
				} else if want := c17Less(a, b); res != want {
					cls := "objects"
					if a.isNl || b.isNl {
						cls = "nil"
					}
					ds = append(ds, keyed{"order model " + cls, fmt.Sprintf("ItemOrderTimestamp(%s, %s) = %v, reference %v", a.name, b.name, res, want)})
				}
			}
		}
		// sorting: newest first regardless of the permutation
		if len(ds) == 0 {
			perm := rapid.Permutation(its).Draw(t, "perm")
			col := make(ap.ItemCollection, len(perm))
			idx := make([]int, len(perm))
			for i := range perm {
				col[i] = perm[i].it
				idx[i] = i
			}
			pi := evSafe(func() {
				sort.SliceStable(idx, func(x, y int) bool { return ap.ItemOrderTimestamp(col[idx[x]], col[idx[y]]) })
			})
			if pi != nil {
				ds = append(ds, keyed{"order panic@" + pi.Frame, pi.Value})
			} else {
				seen := map[int]bool{}
				for p := 0; p < len(idx); p++ {
					seen[idx[p]] = true
					if p > 0 && c17Less(perm[idx[p]], perm[idx[p-1]]) {
						ds = append(ds, keyed{"order sort", fmt.Sprintf("after sorting, %s comes after %s", perm[idx[p]].name, perm[idx[p-1]].name)})
					}
				}
				if len(seen) != len(perm) {
					ds = append(ds, keyed{"order sort", "sorting lost or duplicated items"})
				}
			}
		}
		keys := map[int64]bool{}
		for _, a := range its {
			if !a.isNl {
				keys[a.key.UnixNano()] = true
			}
		}
		r.Case(names, len(keys) >= 2, fmt.Sprintf("random n=%d", n), "random ids="+idPolicy)
		r.Sample(names, map[string]interface{}{"layer": "random", "items": names})
		failUnknown(r, t, "random", ds, map[string]interface{}{"items": names})
	})
}
