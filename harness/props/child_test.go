package props

import (
	"bufio"
	"bytes"
	"encoding/json"
	"fmt"
	"os"
	"os/exec"
	"strconv"
	"strings"
	"sync"
	"testing"
	"time"
)

// Child-process cells: a cell that can end in a fatal runtime error (checkptr abort, nil dereference inside a value-method
// wrapper, stack overflow) cannot be recovered in-process.  The parent test enumerates the cells in a child process
// (the same test binary, re-executed); when the child dies, the cell that was running is blamed, and the enumeration is
// restarted after it, so one fatal cell does not hide the rest.

type cellResult struct {
	Index int     `json:"i"`
	Diffs []keyed `json:"d,omitempty"`
	Info  string  `json:"info,omitempty"`
	Fatal string  `json:"-"` // set by the parent when the child died in this cell
}

func childLayer() string { return os.Getenv("VERIF_CHILD") }

// runChild is the child side: runs cells [from, n) and prints the protocol lines.
func runChild(n int, run func(i int) ([]keyed, string)) {
	from, _ := strconv.Atoi(os.Getenv("VERIF_CHILD_FROM"))
	w := bufio.NewWriter(os.Stdout)
	for i := from; i < n; i++ {
		fmt.Fprintf(w, "@@BEGIN %d\n", i)
		w.Flush()
		ds, info := run(i)
		b, _ := json.Marshal(cellResult{Index: i, Diffs: ds, Info: info})
		fmt.Fprintf(w, "@@END %s\n", b)
		w.Flush()
		if strings.HasPrefix(info, "RESTART") {
			// the cell left a runaway goroutine behind (a call that did not return within its watchdog): a fresh process for the rest
			os.Exit(0)
		}
	}
	fmt.Fprintln(w, "@@DONE")
	w.Flush()
}

// runInChildren is the parent side.  It returns one result per cell.
func runInChildren(t *testing.T, layer string, n int, perChildTimeout time.Duration) []cellResult {
	results := make([]cellResult, n)
	for i := range results {
		results[i].Index = i
	}
	from := 0
	for from < n {
		args := []string{"-test.run", "^" + t.Name() + "$", "-test.timeout=0"}
		if d := os.Getenv("VERIF_COVERDIR"); d != "" {
			// coverage measurement of the harness itself (tools/coverage.sh): children report their share
			args = append(args, fmt.Sprintf("-test.coverprofile=%s/child-%s-%s-%d-%d.out", d, t.Name(), layer, os.Getpid(), from))
		}
		cmd := exec.Command(os.Args[0], args...)
		restarts := 0
		for _, r := range results {
			if strings.HasPrefix(r.Info, "RESTART") {
				restarts++
			}
		}
		cmd.Env = append(os.Environ(), "VERIF_CHILD="+layer, "VERIF_CHILD_FROM="+strconv.Itoa(from), "VERIF_CHILD_RESTARTS="+strconv.Itoa(restarts))
		// the output is streamed so that the parent knows when the child last made progress: a cell that stays silent for
		// cellSilence is a hang of that cell (a finding); a child that keeps making progress but exceeds perChildTimeout is an
		// overloaded machine (inconclusive, never a violation)
		var out syncBuffer
		cmd.Stdout = &out
		cmd.Stderr = &out
		if err := cmd.Start(); err != nil {
			t.Fatalf("cannot start the child process: %v", err)
		}
		done := make(chan error, 1)
		go func() { done <- cmd.Wait() }()
		timedOut := false
		started := time.Now()
		tick := time.NewTicker(time.Second)
	wait:
		for {
			select {
			case <-done:
				break wait
			case <-tick.C:
				if time.Since(out.lastWrite()) > cellSilence {
					_ = cmd.Process.Kill()
					<-done
					timedOut = true
					break wait
				}
				if time.Since(started) > perChildTimeout {
					_ = cmd.Process.Kill()
					<-done
					tick.Stop()
					t.Fatalf("INCONCLUSIVE: the child process of layer %s was still making progress after %v (overloaded machine?); no verdict", layer, perChildTimeout)
				}
			}
		}
		tick.Stop()
		running, finished, lastEnded := -1, false, from-1
		for _, line := range strings.Split(out.String(), "\n") {
			switch {
			case strings.HasPrefix(line, "@@BEGIN "):
				running, _ = strconv.Atoi(strings.TrimPrefix(line, "@@BEGIN "))
			case strings.HasPrefix(line, "@@END "):
				var cr cellResult
				if json.Unmarshal([]byte(strings.TrimPrefix(line, "@@END ")), &cr) == nil && cr.Index >= 0 && cr.Index < n {
					results[cr.Index] = cr
					lastEnded = cr.Index
				}
				running = -1
			case strings.HasPrefix(line, "@@DONE"):
				finished = true
			}
		}
		if finished {
			break
		}
		if running < 0 && lastEnded >= from {
			from = lastEnded + 1 // the child asked for a fresh process
			continue
		}
		if running < 0 {
			t.Fatalf("the child process of layer %s ended without running a cell:\n%s", layer, tail(out.String(), 3000))
		}
		msg := tail(out.String(), 1500)
		switch {
		case timedOut:
			results[running].Fatal = "hang: " + msg
		case strings.Contains(out.String(), "checkptr"):
			results[running].Fatal = "checkptr: " + firstLineWith(out.String(), "checkptr")
		default:
			results[running].Fatal = "fatal: " + firstLineWith(out.String(), "DATA RACE", "fatal error", "panic:", "SIGSEGV", "signal") + " in " + libFrames(out.String(), 4) + " | " + msg
		}
		from = running + 1
	}
	return results
}

// cellSilence is how long one cell of a child process may run without finishing before it is reported as hanging.
var cellSilence = func() time.Duration {
	if s, err := strconv.Atoi(os.Getenv("VERIF_CELL_SILENCE")); err == nil && s > 0 {
		return time.Duration(s) * time.Second // harness self-tests only
	}
	return 4 * time.Minute
}()

// syncBuffer is a bytes.Buffer that remembers when it was last written to.
type syncBuffer struct {
	mu   sync.Mutex
	b    bytes.Buffer
	last time.Time
}

func (s *syncBuffer) Write(p []byte) (int, error) {
	s.mu.Lock()
	defer s.mu.Unlock()
	s.last = time.Now()
	return s.b.Write(p)
}

func (s *syncBuffer) String() string {
	s.mu.Lock()
	defer s.mu.Unlock()
	return s.b.String()
}

func (s *syncBuffer) lastWrite() time.Time {
	s.mu.Lock()
	defer s.mu.Unlock()
	if s.last.IsZero() {
		s.last = time.Now()
	}
	return s.last
}

func tail(s string, n int) string {
	if len(s) > n {
		return s[len(s)-n:]
	}
	return s
}

func firstLineWith(s string, subs ...string) string {
	for _, line := range strings.Split(s, "\n") {
		for _, sub := range subs {
			if strings.Contains(line, sub) {
				return strings.TrimSpace(line)
			}
		}
	}
	return ""
}

// libFrames lists the first n distinct functions of the library under test that appear in a runtime report.
func libFrames(s string, n int) string {
	var out []string
	seen := map[string]bool{}
	for _, line := range strings.Split(s, "\n") {
		line = strings.TrimSpace(line)
		if i := strings.Index(line, "github.com/go-ap/activitypub."); i >= 0 {
			f := line[i+len("github.com/go-ap/activitypub."):]
			if j := strings.Index(f, "("); j > 0 && !strings.HasPrefix(f, "(") {
				f = f[:j]
			} else if strings.HasPrefix(f, "(") {
				if j := strings.Index(f, ")("); j > 0 {
					f = f[:j+1]
				}
			}
			if !seen[f] && len(out) < n {
				seen[f] = true
				out = append(out, f)
			}
		}
	}
	return strings.Join(out, " <- ")
}
