package props

import (
	"fmt"
	"go/ast"
	"go/parser"
	"go/token"
	"os"
	"path/filepath"
	"reflect"
	"sort"
	"strings"
	"testing"
	"time"
	"unsafe"

	ap "github.com/go-ap/activitypub"
	"verif/harness/ev"
	"verif/harness/vocab"
)

// C08 — Typed views (On*/To*) are field-faithful and never reach outside the value.

type c08Helper struct {
	name   string
	target string // Go type name of the view
	call   func(it ap.Item) (interface{}, error)
}

// c08Inside, when set, runs inside the callback of the On* helpers with the view; what it returns is what the callback returns.
var c08Inside func(view interface{}) error

// c08LastErr is what the helper of the last c08Capture call returned.
var c08LastErr error

func c08Capture[T any](on func(ap.Item, func(*T) error) error) func(ap.Item) (interface{}, error) {
	return func(it ap.Item) (interface{}, error) {
		var got *T
		called := false
		err := on(it, func(p *T) error {
			got, called = p, true
			if c08Inside != nil {
				return c08Inside(p)
			}
			return nil
		})
		c08LastErr = err
		if c08Inside != nil && called {
			return got, nil // the callback's own error is not a refusal
		}
		if err != nil || !called {
			return nil, fmt.Errorf("refused: %v (callback invoked: %v)", err, called)
		}
		return got, nil
	}
}

func c08To[T any](to func(ap.Item) (*T, error)) func(ap.Item) (interface{}, error) {
	return func(it ap.Item) (interface{}, error) {
		p, err := to(it)
		if err != nil {
			return nil, err
		}
		if p == nil {
			return nil, fmt.Errorf("nil view")
		}
		return p, nil
	}
}

var c08Helpers = []c08Helper{
	{"ToObject", "Object", c08To(ap.ToObject)}, {"OnObject", "Object", c08Capture(func(it ap.Item, f func(*ap.Object) error) error { return ap.OnObject(it, f) })},
	{"ToActor", "Actor", c08To(ap.ToActor)}, {"OnActor", "Actor", c08Capture(func(it ap.Item, f func(*ap.Actor) error) error { return ap.OnActor(it, f) })},
	{"ToActivity", "Activity", c08To(ap.ToActivity)}, {"OnActivity", "Activity", c08Capture(func(it ap.Item, f func(*ap.Activity) error) error { return ap.OnActivity(it, f) })},
	{"ToIntransitiveActivity", "IntransitiveActivity", c08To(ap.ToIntransitiveActivity)},
	{"OnIntransitiveActivity", "IntransitiveActivity", c08Capture(func(it ap.Item, f func(*ap.IntransitiveActivity) error) error {
		return ap.OnIntransitiveActivity(it, f)
	})},
	{"ToQuestion", "Question", c08To(ap.ToQuestion)}, {"OnQuestion", "Question", c08Capture(func(it ap.Item, f func(*ap.Question) error) error { return ap.OnQuestion(it, f) })},
	{"ToCollection", "Collection", c08To(ap.ToCollection)}, {"OnCollection", "Collection", c08Capture(func(it ap.Item, f func(*ap.Collection) error) error { return ap.OnCollection(it, f) })},
	{"ToCollectionPage", "CollectionPage", c08To(ap.ToCollectionPage)},
	{"OnCollectionPage", "CollectionPage", c08Capture(func(it ap.Item, f func(*ap.CollectionPage) error) error { return ap.OnCollectionPage(it, f) })},
	{"ToOrderedCollection", "OrderedCollection", c08To(ap.ToOrderedCollection)},
	{"OnOrderedCollection", "OrderedCollection", c08Capture(func(it ap.Item, f func(*ap.OrderedCollection) error) error { return ap.OnOrderedCollection(it, f) })},
	{"ToOrderedCollectionPage", "OrderedCollectionPage", c08To(ap.ToOrderedCollectionPage)},
	{"OnOrderedCollectionPage", "OrderedCollectionPage", c08Capture(func(it ap.Item, f func(*ap.OrderedCollectionPage) error) error {
		return ap.OnOrderedCollectionPage(it, f)
	})},
	{"ToPlace", "Place", c08To(ap.ToPlace)}, {"OnPlace", "Place", c08Capture(func(it ap.Item, f func(*ap.Place) error) error { return ap.OnPlace(it, f) })},
	{"ToProfile", "Profile", c08To(ap.ToProfile)}, {"OnProfile", "Profile", c08Capture(func(it ap.Item, f func(*ap.Profile) error) error { return ap.OnProfile(it, f) })},
	{"ToRelationship", "Relationship", c08To(ap.ToRelationship)},
	{"OnRelationship", "Relationship", c08Capture(func(it ap.Item, f func(*ap.Relationship) error) error { return ap.OnRelationship(it, f) })},
	{"ToTombstone", "Tombstone", c08To(ap.ToTombstone)}, {"OnTombstone", "Tombstone", c08Capture(func(it ap.Item, f func(*ap.Tombstone) error) error { return ap.OnTombstone(it, f) })},
	{"ToLink", "Link", c08To(func(it ap.Item) (*ap.Link, error) { return ap.ToLink(it) })},
	{"OnLink", "Link", c08Capture(func(it ap.Item, f func(*ap.Link) error) error { return ap.OnLink(it, f) })},
	{"To[Object]", "Object", c08To(ap.To[ap.Object])}, {"To[Actor]", "Actor", c08To(ap.To[ap.Actor])}, {"To[Place]", "Place", c08To(ap.To[ap.Place])},
}

// c08Populate fills every field of a struct with a distinct recognisable value (seeded by k), so a shifted field cannot compare equal.
func c08Populate(st reflect.Type, k int) reflect.Value {
	c := 1000 * (k + 1)
	next := func() int { c++; return c }
	p := reflect.New(st)
	v := p.Elem()
	for _, f := range vocab.Fields(st) {
		fv := v.Field(f.Index)
		n := next()
		switch f.Kind {
		case vocab.KID, vocab.KIRI:
			fv.SetString(fmt.Sprintf("https://example.com/%s/%d", strings.ToLower(f.Name), n))
		case vocab.KType:
			fv.SetString(string(vocab.DefaultType[st.Name()]))
		case vocab.KNLV:
			fv.Set(reflect.ValueOf(ap.NaturalLanguageValues{{Ref: ap.NilLangRef, Value: ap.Content(fmt.Sprintf("%s text %d", f.Name, n))}}))
		case vocab.KItem:
			// the values rotate through what an item property can hold: an IRI, an embedded object, an embedded collection, an embedded
			// page (a conversion that follows a property instead of viewing the value itself then reads another object's fields)
			id := ap.IRI(fmt.Sprintf("https://example.com/%s/%d", strings.ToLower(f.Name), n))
			var it ap.Item = id
			switch (k + f.Index) % 4 {
			case 1:
				it = &ap.Object{ID: id, Type: ap.NoteType, Name: ap.DefaultNaturalLanguageValue(fmt.Sprintf("embedded %d", n))}
			case 2:
				it = &ap.OrderedCollection{ID: id, Type: ap.OrderedCollectionType, TotalItems: uint(n), OrderedItems: ap.ItemCollection{ap.IRI(string(id) + "/member")}}
			case 3:
				it = &ap.CollectionPage{ID: id, Type: ap.CollectionPageType, TotalItems: uint(n), Items: ap.ItemCollection{ap.IRI(string(id) + "/member")}}
			}
			fv.Set(reflect.ValueOf(&it).Elem())
		case vocab.KItems:
			a, b := ap.IRI(fmt.Sprintf("https://example.com/%s/%d/a", strings.ToLower(f.Name), n)), ap.IRI(fmt.Sprintf("https://example.com/%s/%d/b", strings.ToLower(f.Name), n))
			if k%2 == 1 {
				// embedded members with instants, oldest first: a helper that "tidies" the members it presents shows here
				t0 := time.Date(2020, 1, 1, 0, 0, 0, 0, time.UTC).Add(time.Duration(n) * time.Hour)
				fv.Set(reflect.ValueOf(ap.ItemCollection{&ap.Object{ID: a, Type: ap.NoteType, Published: t0}, &ap.Object{ID: b, Type: ap.NoteType, Published: t0.Add(time.Hour)},
					&ap.Object{ID: a + "/c", Type: ap.NoteType, Published: t0.Add(2 * time.Hour)}}))
			} else if k%4 == 2 {
				// a member held twice (a boost listed again, an addressee named twice): a view shows the list as it is
				fv.Set(reflect.ValueOf(ap.ItemCollection{a, b, a, &ap.Object{ID: b, Type: ap.NoteType}}))
			} else {
				fv.Set(reflect.ValueOf(ap.ItemCollection{a, b}))
			}
		case vocab.KTime:
			fv.Set(reflect.ValueOf(time.Date(2020, 1, 1, 0, 0, 0, 0, time.UTC).Add(time.Duration(n) * time.Hour)))
		case vocab.KDur:
			fv.SetInt(int64(time.Duration(n) * time.Second))
		case vocab.KMime:
			fv.SetString(fmt.Sprintf("x-test/%d", n))
		case vocab.KLangRef:
			fv.SetString(fmt.Sprintf("l%d", n))
		case vocab.KString:
			fv.SetString(fmt.Sprintf("%s-%d", f.Name, n))
		case vocab.KUint:
			fv.SetUint(uint64(n))
		case vocab.KInt:
			fv.SetInt(int64(n))
		case vocab.KFloat:
			fv.SetFloat(float64(n) + 0.5)
		case vocab.KBool:
			fv.SetBool(true)
		case vocab.KSource:
			fv.Set(reflect.ValueOf(ap.Source{MediaType: ap.MimeType(fmt.Sprintf("x-src/%d", n)), Content: ap.DefaultNaturalLanguageValue(fmt.Sprintf("src %d", n))}))
		case vocab.KPublicKey:
			fv.Set(reflect.ValueOf(ap.PublicKey{ID: ap.IRI(fmt.Sprintf("https://example.com/key/%d", n)), PublicKeyPem: fmt.Sprintf("PEM %d", n)}))
		case vocab.KEndpoints:
			fv.Set(reflect.ValueOf(&ap.Endpoints{SharedInbox: ap.IRI(fmt.Sprintf("https://example.com/shared/%d", n))}))
		}
	}
	return p
}

// c08SameRepr: identical types, or two interface types of the same shape (Item / CanReceiveActivities / ObjectOrLink are
// distinct named interface types with one memory representation).
func c08SameRepr(a, b reflect.Type) bool {
	if a == b {
		return true
	}
	// two interface types are the same in memory only when they are the same type: the word next to the data pointer is the method
	// table of the (declared interface type, dynamic type) pair.  With another interface type at the same place - even one with the
	// very same methods - a value written through the view carries the other type's table, and reading the original then fails every
	// direct type assertion (original.Actor.(IRI) is false for an IRI) and every == between items
	return false
}

// shared field correspondence: same name and type, plus Items <-> OrderedItems
func c08SourceField(view reflect.Type, vf reflect.StructField, src reflect.Type) (reflect.StructField, bool) {
	if sf, ok := src.FieldByName(vf.Name); ok && c08SameRepr(sf.Type, vf.Type) {
		return sf, true
	}
	alt := map[string]string{"Items": "OrderedItems", "OrderedItems": "Items"}
	if a, ok := alt[vf.Name]; ok {
		if sf, ok := src.FieldByName(a); ok && sf.Type == vf.Type {
			if _, hasOwn := src.FieldByName(vf.Name); !hasOwn {
				return sf, true
			}
		}
	}
	return reflect.StructField{}, false
}

type c08Cell struct {
	h    c08Helper
	src  reflect.Type
	form string // ptr | val
}

func (c c08Cell) String() string { return fmt.Sprintf("%s %s %s", c.h.name, c.src.Name(), c.form) }

// types "from another scope" with the memory layout of a vocabulary type: the helpers' reflection fallback exists for these
type c08ExtObject ap.Object

func (n c08ExtObject) GetID() ap.ID                       { return n.ID }
func (n c08ExtObject) GetLink() ap.IRI                    { return n.ID }
func (n c08ExtObject) GetType() ap.ActivityVocabularyType { return n.Type }
func (n c08ExtObject) IsLink() bool                       { return false }
func (n c08ExtObject) IsObject() bool                     { return true }
func (n c08ExtObject) IsCollection() bool                 { return false }

type c08ExtActor ap.Actor

func (n c08ExtActor) GetID() ap.ID                       { return n.ID }
func (n c08ExtActor) GetLink() ap.IRI                    { return n.ID }
func (n c08ExtActor) GetType() ap.ActivityVocabularyType { return n.Type }
func (n c08ExtActor) IsLink() bool                       { return false }
func (n c08ExtActor) IsObject() bool                     { return true }
func (n c08ExtActor) IsCollection() bool                 { return false }

func c08Cells() []c08Cell {
	var out []c08Cell
	// the external types first: viewed as their true shape, then through every other helper (a conversion that remembers an
	// earlier answer for the source type shows in the later cells)
	for _, h := range c08Helpers {
		for _, st := range []reflect.Type{reflect.TypeOf(c08ExtObject{}), reflect.TypeOf(c08ExtActor{})} {
			out = append(out, c08Cell{h, st, "ptr"})
		}
	}
	for _, h := range c08Helpers {
		for _, st := range vocab.StructTypes {
			for _, form := range []string{"ptr", "val"} {
				out = append(out, c08Cell{h, st, form})
			}
		}
	}
	return out
}

// c08Run evaluates one cell on `values` differently populated source values.
func c08Run(c c08Cell, values int) (ds []keyed, info string) {
	key := func(what string) string { return "view " + c.String() + " " + what }
	outcome := "refused"
	// the last round repeats the first with the source naming the viewed type as its own (an *Object whose type says "Tombstone"):
	// what a conversion does is decided by what the value is, not by what it says it is
	mkSrc := func(k int) reflect.Value {
		sp := c08Populate(c.src, k%values)
		if k == values {
			if tn, ok := vocab.DefaultType[c.h.target]; ok {
				sp.Elem().FieldByName("Type").SetString(string(tn))
			}
		}
		return sp
	}
	for k := 0; k <= values; k++ {
		if k == values && c.h.target == c.src.Name() {
			break
		}
		sp := mkSrc(k)
		var src ap.Item = sp.Interface().(ap.Item)
		if c.form == "val" {
			src = sp.Elem().Interface().(ap.Item)
		}
		// what the original held before it was viewed: the view is compared with this, not with the live value it may alias
		before := reflect.ValueOf(vocab.Clone(sp.Interface())).Elem()
		var res interface{}
		var err error
		if pi := evSafe(func() { res, err = c.h.call(src) }); pi != nil {
			return []keyed{{key("panic@" + pi.Frame), pi.Value}}, "panic"
		}
		if err != nil {
			continue // refused with an error: always acceptable
		}
		rv := reflect.ValueOf(res)
		view := rv.Elem()
		vt := view.Type()
		aliases := c.form == "ptr" && rv.Pointer() == sp.Pointer()
		if vt == c.src {
			outcome = "identity"
		} else {
			outcome = "view:" + vt.Name()
		}
		// (c) containment: every field of the view type must coincide with a field of the source type, same type, same offset;
		// for value sources the view points at a copy of the source value, so the same layout condition applies.
		if vt != c.src {
			if vt.Size() > c.src.Size() {
				ds = append(ds, keyed{key("layout"), fmt.Sprintf("the view type %s (%d bytes) is larger than the source %s (%d bytes): its tail lies outside the value", vt.Name(), vt.Size(), c.src.Name(), c.src.Size())})
				// (the part of the view that does lie inside the value is still held to (a) and (b) below)
			}
			for i := 0; i < vt.NumField() && vt.Size() <= c.src.Size(); i++ {
				vf := vt.Field(i)
				ok := false
				for j := 0; j < c.src.NumField(); j++ {
					sf := c.src.Field(j)
					if sf.Offset == vf.Offset && c08SameRepr(sf.Type, vf.Type) {
						ok = true
					}
				}
				if !ok {
					ds = append(ds, keyed{key("layout"), fmt.Sprintf("field %s.%s (offset %d, %s) does not coincide with any field of %s", vt.Name(), vf.Name, vf.Offset, vf.Type, c.src.Name())})
					return ds, outcome
				}
			}
		}
		// (a) read faithfulness on the shared fields
		for i := 0; i < vt.NumField(); i++ {
			vf := vt.Field(i)
			sf, ok := c08SourceField(vt, vf, c.src)
			if !ok {
				continue
			}
			got, want := view.Field(i).Interface(), before.FieldByIndex(sf.Index).Interface()
			if len(vocab.ContentDiff(want, got)) > 0 {
				ds = append(ds, keyed{key("read:" + vf.Name), fmt.Sprintf("view.%s = %s, the original's %s = %s", vf.Name, clipStr(vocab.Dump(got), 150), sf.Name, clipStr(vocab.Dump(want), 150))})
			}
		}
		// (b) write-through for pointer sources
		if c.form == "ptr" {
			if !aliases && vt != c.src {
				ds = append(ds, keyed{key("write:not-a-view"), "the result of a pointer conversion does not alias the original: writes through it are not seen"})
			}
			marker := c08Populate(vt, k+50).Elem()
			for i := 0; i < vt.NumField(); i++ {
				vf := vt.Field(i)
				sf, ok := c08SourceField(vt, vf, c.src)
				if !ok || vf.Name == "Type" {
					continue
				}
				view.Field(i).Set(marker.Field(i))
				if got := sp.Elem().FieldByIndex(sf.Index).Interface(); !reflect.DeepEqual(got, marker.Field(i).Interface()) {
					ds = append(ds, keyed{key("write:" + vf.Name), fmt.Sprintf("after writing view.%s the original's %s is %s", vf.Name, sf.Name, clipStr(vocab.Dump(got), 150))})
				}
			}
		}
		// (b') the same writes made inside the callback, which then fails: the helper reports the failure, it does not undo (or postpone)
		// what was written through the view - the original holds it while the callback runs and after the helper returned
		if c.form == "ptr" && strings.HasPrefix(c.h.name, "On") && len(ds) == 0 {
			sp2 := mkSrc(k)
			marker := c08Populate(vt, k+70).Elem()
			var during []string
			c08Inside = func(v interface{}) error {
				view := reflect.ValueOf(v).Elem()
				for i := 0; i < vt.NumField(); i++ {
					vf := vt.Field(i)
					sf, ok := c08SourceField(vt, vf, c.src)
					if !ok || vf.Name == "Type" {
						continue
					}
					view.Field(i).Set(marker.Field(i))
					if got := sp2.Elem().FieldByIndex(sf.Index).Interface(); !reflect.DeepEqual(got, marker.Field(i).Interface()) {
						during = append(during, vf.Name)
					}
				}
				return fmt.Errorf("the callback failed after writing")
			}
			pi := evSafe(func() { _, _ = c.h.call(sp2.Interface().(ap.Item)) })
			c08Inside = nil
			if pi != nil {
				return []keyed{{key("panic@" + pi.Frame), pi.Value}}, "panic"
			}
			for _, n := range during {
				ds = append(ds, keyed{key("write-inside:" + n), fmt.Sprintf("view.%s written inside the callback is not seen by the original while the callback runs", n)})
			}
			for i := 0; i < vt.NumField(); i++ {
				vf := vt.Field(i)
				sf, ok := c08SourceField(vt, vf, c.src)
				if !ok || vf.Name == "Type" {
					continue
				}
				if got := sp2.Elem().FieldByIndex(sf.Index).Interface(); !reflect.DeepEqual(got, marker.Field(i).Interface()) {
					ds = append(ds, keyed{key("write-then-error:" + vf.Name), fmt.Sprintf("view.%s was written inside a callback that then returned an error; afterwards the original's %s is %s", vf.Name, sf.Name, clipStr(vocab.Dump(got), 150))})
				}
			}
		}
		if len(ds) > 0 {
			break
		}
	}
	// value sources: each view is a private copy of the value it was made from.  Two views of two values must not share memory -
	// the empty value included (a conversion that hands out a shared sentinel for it leaks writes from one view into the next)
	if c.form == "val" && len(ds) == 0 {
		for _, empty := range []bool{true, false} {
			mk := func(k int) ap.Item {
				if empty {
					return reflect.New(c.src).Elem().Interface().(ap.Item)
				}
				return c08Populate(c.src, k).Elem().Interface().(ap.Item)
			}
			var r1, r2 interface{}
			var e1, e2 error
			if pi := evSafe(func() { r1, e1 = c.h.call(mk(3)) }); pi != nil || e1 != nil || r1 == nil {
				continue
			}
			v1 := reflect.ValueOf(r1)
			if v1.Kind() != reflect.Ptr || v1.IsNil() {
				continue
			}
			// write through the first view, then view a second, independent value
			if f := v1.Elem().FieldByName("ID"); f.IsValid() && f.CanSet() {
				f.SetString("https://example.com/written-through-the-first-view")
			}
			if pi := evSafe(func() { r2, e2 = c.h.call(mk(3)) }); pi != nil || e2 != nil || r2 == nil {
				continue
			}
			v2 := reflect.ValueOf(r2)
			if v2.Kind() != reflect.Ptr || v2.IsNil() {
				continue
			}
			if v1.Pointer() == v2.Pointer() {
				ds = append(ds, keyed{key("shared-memory"), fmt.Sprintf("two views of two %s values (empty=%v) are the same pointer", c.src.Name(), empty)})
			} else if f := v2.Elem().FieldByName("ID"); f.IsValid() && f.String() == "https://example.com/written-through-the-first-view" {
				ds = append(ds, keyed{key("shared-memory"), fmt.Sprintf("a write through one view of a %s value (empty=%v) is read through the view of another", c.src.Name(), empty)})
			}
		}
	}
	return ds, outcome
}

// c08Census lists the pointer-reinterpreting conversion sites of the package: (function, case type, target type).
func c08Census(dir string) (sites []string, err error) {
	fset := token.NewFileSet()
	files, _ := filepath.Glob(filepath.Join(dir, "*.go"))
	for _, fn := range files {
		if strings.HasSuffix(fn, "_test.go") {
			continue
		}
		f, perr := parser.ParseFile(fset, fn, nil, 0)
		if perr != nil {
			return nil, perr
		}
		for _, d := range f.Decls {
			fd, ok := d.(*ast.FuncDecl)
			if !ok || fd.Body == nil {
				continue
			}
			ast.Inspect(fd.Body, func(n ast.Node) bool {
				cc, ok := n.(*ast.CaseClause)
				if !ok {
					return true
				}
				hasUnsafe, target := false, ""
				ast.Inspect(cc, func(m ast.Node) bool {
					if ce, ok := m.(*ast.CallExpr); ok {
						if pe, ok := ce.Fun.(*ast.ParenExpr); ok {
							if se, ok := pe.X.(*ast.StarExpr); ok && len(ce.Args) == 1 {
								if inner, ok := ce.Args[0].(*ast.CallExpr); ok {
									if sel, ok := inner.Fun.(*ast.SelectorExpr); ok && sel.Sel.Name == "Pointer" {
										hasUnsafe = true
										target = fmt.Sprint(se.X)
									}
								}
							}
						}
					}
					return true
				})
				if hasUnsafe {
					for _, e := range cc.List {
						form, name := "val", fmt.Sprint(e)
						if se, ok := e.(*ast.StarExpr); ok {
							form, name = "ptr", fmt.Sprint(se.X)
						}
						sites = append(sites, fmt.Sprintf("%s %s %s -> %s", fd.Name.Name, name, form, target))
					}
				}
				return true
			})
		}
	}
	sort.Strings(sites)
	return sites, nil
}

// c08Intf checks the CollectionInterface view of one pointer-held collection kind.
func c08Intf(kind string, members int) (key, detail string) {
	var list ap.ItemCollection
	for i := 0; i < members; i++ {
		list = append(list, ap.IRI(fmt.Sprintf("https://example.com/members/%d", i)))
	}
	var x ap.Item
	original := func() ap.ItemCollection {
		switch v := x.(type) {
		case *ap.ItemCollection:
			return *v
		case *ap.Collection:
			return v.Items
		case *ap.CollectionPage:
			return v.Items
		case *ap.OrderedCollection:
			return v.OrderedItems
		case *ap.OrderedCollectionPage:
			return v.OrderedItems
		}
		return nil
	}
	switch kind {
	case "ItemCollection":
		l := append(ap.ItemCollection{}, list...)
		x = &l
	case "Collection":
		x = &ap.Collection{ID: "https://example.com/c", Type: ap.CollectionType, Items: append(ap.ItemCollection{}, list...)}
	case "CollectionPage":
		x = &ap.CollectionPage{ID: "https://example.com/c", Type: ap.CollectionPageType, Items: append(ap.ItemCollection{}, list...)}
	case "OrderedCollection":
		x = &ap.OrderedCollection{ID: "https://example.com/c", Type: ap.OrderedCollectionType, OrderedItems: append(ap.ItemCollection{}, list...)}
	case "OrderedCollectionPage":
		x = &ap.OrderedCollectionPage{ID: "https://example.com/c", Type: ap.OrderedCollectionPageType, OrderedItems: append(ap.ItemCollection{}, list...)}
	}
	added := ap.IRI("https://example.com/members/added-through-the-view")
	called := false
	var err error
	pi := evSafe(func() {
		err = ap.OnCollectionIntf(x, func(c ap.CollectionInterface) error {
			called = true
			if got := c.Collection(); len(got) != members {
				key, detail = "view OnCollectionIntf "+kind+" ptr read:members", fmt.Sprintf("the view shows %d members, the original has %d", len(got), members)
				return nil
			}
			for i, m := range c.Collection() {
				if m.GetLink() != list[i].GetLink() {
					key, detail = "view OnCollectionIntf "+kind+" ptr read:members", fmt.Sprintf("member %d reads %q through the view, the original holds %q", i, m.GetLink(), list[i].GetLink())
					return nil
				}
			}
			if int(c.Count()) != members {
				key, detail = "view OnCollectionIntf "+kind+" ptr read:count", fmt.Sprintf("Count() through the view = %d, the original has %d members", c.Count(), members)
				return nil
			}
			return c.Append(added)
		})
	})
	switch {
	case pi != nil:
		return "view OnCollectionIntf " + kind + " ptr panic@" + pi.Frame, pi.Value
	case key != "":
		return key, detail
	case err != nil:
		return "", "" // refused with an error: always acceptable
	case !called:
		return "view OnCollectionIntf " + kind + " ptr not-called", "the callback was not called and no error was returned"
	}
	after := original()
	if len(after) != members+1 || after[members].GetLink() != added {
		return "view OnCollectionIntf " + kind + " ptr write:append", fmt.Sprintf("a member appended through the view is not seen by the original: original holds %s", vocab.Dump(after))
	}
	return "", ""
}

func TestC08(t *testing.T) {
	cells := c08Cells()
	values := 20
	if os.Getenv("VERIF_TIER") == "thorough" {
		values = 300
	}
	if childLayer() == "matrix" {
		runChild(len(cells), func(i int) ([]keyed, string) { return c08Run(cells[i], values) })
		return
	}
	r := ev.Open(t, "C08")
	defer r.Close(t)
	r.Rule("matrix: every To*/On* helper (15 types, generic To[T]) x every source struct type x {pointer, value} (exhaustive), plus two types from outside the package with the layout of Object and of Actor (the helpers' reflection fallback) through every helper, each on 20 (300 thorough) fully populated source values with a distinct recognisable " +
		"value in every field; run in a child process built with the runtime pointer checker (-d=checkptr) so that an abort is attributed to its cell. Oracle per cell that returns a view: reflect offsets/sizes show the " +
		"view type lies inside the source value, every shared field (plus items<->orderedItems) reads equal, writes through a pointer view reach the original; an error return is always accepted. A go/parser census " +
		"of unsafe.Pointer conversion sites checks that every site is exercised by a cell. intf: OnCollectionIntf on each of the four collection kinds and an item list held by pointer, with 0/1/3 members: " +
		"members and Count read through the view as on the original, a member appended through the view is seen by the original. Further per cell: the same writes made inside a callback that then fails are seen " +
		"while it runs and afterwards; one more round with the source naming the viewed type as its own; two views of two values never share memory. lists: every On* helper on an item list (by value and by pointer) of 2 and 3 members of its " +
		"own type: one call per member, in order, each handed that very member, each write landing on it; with a link in front the list keeps its members; a vocabulary collection holding such members is never answered with a member. non-trivial = the cell returns a view of a different type; distinct by cell")
	r.Note("only_enumerated_layers", true)
	r.Note("checkptr", "test binary built with -gcflags=all=-d=checkptr")

	results := runInChildren(t, "matrix", len(cells), 10*time.Minute)
	covered := map[string]bool{}
	for i, c := range cells {
		res := results[i]
		cell := c.String()
		if !r.WantCell(cell) {
			continue
		}
		nt := strings.HasPrefix(res.Info, "view:")
		r.Case(cell, nt, "matrix outcome="+strings.Split(res.Info+":", ":")[0])
		if nt && i%7 == 0 {
			r.Sample(cell, map[string]interface{}{"cell": cell, "outcome": res.Info})
		}
		if res.Info != "refused" && res.Info != "" {
			covered[fmt.Sprintf("%s %s %s", strings.Replace(c.h.name, "On", "To", 1), c.src.Name(), c.form)] = true
		}
		if res.Fatal != "" {
			what := "fatal"
			if strings.HasPrefix(res.Fatal, "checkptr") {
				what = "checkptr"
			} else if strings.HasPrefix(res.Fatal, "hang") {
				what = "hang"
			}
			covered[fmt.Sprintf("%s %s %s", strings.Replace(c.h.name, "On", "To", 1), c.src.Name(), c.form)] = true
			r.Report("matrix", cell, "view "+cell+" "+what, res.Fatal, cell)
			continue
		}
		for _, d := range res.Diffs {
			r.Report("matrix", cell, d.Key, d.Detail, cell)
		}
	}
	r.Cells(len(cells), len(cells))
	r.Exhaustive("matrix", !r.Replaying())

	// ---- the collection-interface view: OnCollectionIntf presents each of the four collection kinds and an item list through
	// CollectionInterface; it reads the original's members, and a member appended through the view of a pointer is seen by the original
	if r.WantLayer("intf", true) {
		n := 0
		for _, kind := range []string{"ItemCollection", "Collection", "CollectionPage", "OrderedCollection", "OrderedCollectionPage"} {
			for _, members := range []int{0, 1, 3} {
				cell := fmt.Sprintf("OnCollectionIntf *%s members=%d", kind, members)
				if !r.WantCell(cell) {
					continue
				}
				n++
				r.Case(cell, true, "intf kind="+kind)
				key, detail := c08Intf(kind, members)
				if key != "" {
					r.Report("intf", cell, key, detail, cell)
				}
			}
		}
		r.Cells(n, n)
		r.Exhaustive("intf", !r.Replaying())
	}

	// ---- an item list handed to an On* helper: the callback is run for every member, each time with the view of that member - the
	// views arrive in the members' order, each one is the member it was made from (same type: the very pointer), and what is written
	// through it lands on that member
	if r.WantLayer("lists", true) {
		n := 0
		for _, h := range c08Helpers {
			if !strings.HasPrefix(h.name, "On") {
				continue
			}
			for _, size := range []int{2, 3} {
				for _, holder := range []string{"ItemCollection", "*ItemCollection"} {
					cell := fmt.Sprintf("%s(%s of %d %s)", h.name, holder, size, h.target)
					if !r.WantCell(cell) {
						continue
					}
					n++
					r.Case(cell, true, "lists helper="+h.name)
					st := vocab.StructType(h.target)
					var members []reflect.Value
					l := ap.ItemCollection{}
					for k := 0; k < size; k++ {
						m := c08Populate(st, k)
						members = append(members, m)
						l = append(l, m.Interface().(ap.Item))
					}
					// "+link": a link in front of the members and an IRI behind them - whatever the helper does with those two (skip them, refuse
					// the list), the list it was handed holds the same members in the same places afterwards
					mixed := size == 3
					if mixed {
						l = append(append(ap.ItemCollection{&ap.Link{Type: ap.MentionType, Href: "https://example.com/mentioned"}}, l...), ap.IRI("https://example.com/trailing"))
					}
					before := append(ap.ItemCollection{}, l...)
					var arg ap.Item = l
					if holder == "*ItemCollection" {
						arg = &l
					}
					var seen []uintptr
					c08Inside = func(v interface{}) error {
						rv := reflect.ValueOf(v)
						seen = append(seen, rv.Pointer())
						if f := rv.Elem().FieldByName("MediaType"); f.IsValid() && f.Kind() == reflect.String {
							f.SetString(fmt.Sprintf("written/through-view-%d", len(seen)-1))
						}
						return nil
					}
					pi := evSafe(func() { _, _ = h.call(arg) })
					c08Inside = nil
					key := "view " + h.name + " list "
					switch {
					case pi != nil:
						r.Report("lists", cell, key+"panic@"+pi.Frame, pi.Value, cell)
					case len(l) != len(before):
						r.Report("lists", cell, key+"list-changed", fmt.Sprintf("the list held %d members, after the call it holds %d", len(before), len(l)), cell)
					case func() bool {
						for k := range before {
							if l[k] != before[k] {
								return true
							}
						}
						return false
					}():
						r.Report("lists", cell, key+"list-changed", "after the call the list holds other members, or the same in other places: "+vocab.Dump(l), cell)
					case len(seen) == 0:
						// refused, or not a helper that walks lists: acceptable
					case mixed:
						// with a link and an IRI among the members the number of calls is the helper's affair
					case len(seen) != size:
						r.Report("lists", cell, key+"calls", fmt.Sprintf("the callback ran %d times for a list of %d members", len(seen), size), cell)
					default:
						for k := range members {
							if seen[k] != members[k].Pointer() {
								r.Report("lists", cell, key+"wrong-member", fmt.Sprintf("call #%d was handed a view that is not member #%d", k, k), cell)
								break
							}
							if f := members[k].Elem().FieldByName("MediaType"); f.IsValid() && f.Kind() == reflect.String && f.String() != fmt.Sprintf("written/through-view-%d", k) {
								r.Report("lists", cell, key+"write", fmt.Sprintf("what call #%d wrote is not on member #%d (its mediaType is %q)", k, k, f.String()), cell)
								break
							}
						}
					}
				}
			}
		}
		// errors are not lost along a list: when the callback fails for one member (whichever), or one member cannot be viewed at all,
		// the helper that walks the list returns an error - a nil says every member was presented and accepted
		for _, h := range c08Helpers {
			if !strings.HasPrefix(h.name, "On") {
				continue
			}
			st := vocab.StructType(h.target)
			mk := func(size int) ap.ItemCollection {
				l := ap.ItemCollection{}
				for k := 0; k < size; k++ {
					l = append(l, c08Populate(st, k).Interface().(ap.Item))
				}
				return l
			}
			// does this helper walk lists at all?
			calls := 0
			c08Inside = func(interface{}) error { calls++; return nil }
			_ = evSafe(func() { _, _ = h.call(mk(3)) })
			c08Inside = nil
			if calls != 3 {
				continue
			}
			for _, holder := range []string{"ItemCollection", "*ItemCollection"} {
				for failAt := 0; failAt < 3; failAt++ {
					cell := fmt.Sprintf("%s(%s of 3 %s) callback fails for #%d", h.name, holder, h.target, failAt)
					if !r.WantCell(cell) {
						continue
					}
					n++
					r.Case(cell, true, "lists errors")
					l := mk(3)
					var arg ap.Item = l
					if holder == "*ItemCollection" {
						arg = &l
					}
					k := 0
					c08Inside = func(interface{}) error {
						k++
						if k-1 == failAt {
							return fmt.Errorf("the callback's own error for member #%d", failAt)
						}
						return nil
					}
					c08LastErr = nil
					pi := evSafe(func() { _, _ = h.call(arg) })
					c08Inside = nil
					if pi != nil {
						r.Report("lists", cell, "view "+h.name+" list-error panic@"+pi.Frame, pi.Value, cell)
					} else if c08LastErr == nil {
						r.Report("lists", cell, "view "+h.name+" list-error callback-error-lost", fmt.Sprintf("the callback failed for member #%d of 3, the helper returned nil", failAt), cell)
					}
				}
				// a member that this helper refuses when it is handed alone, at every place among members it accepts
				for _, other := range vocab.StructTypes {
					if other.Name() == "Link" {
						continue // links among the members are passed over by several helpers (see the mixed lists above): their affair
					}
					bad := c08Populate(other, 7).Interface().(ap.Item)
					c08Inside = func(interface{}) error { return nil }
					c08LastErr = nil
					_ = evSafe(func() { _, _ = h.call(bad) })
					c08Inside = nil
					if c08LastErr == nil {
						continue
					}
					for at := 0; at < 3; at++ {
						cell := fmt.Sprintf("%s(%s of 3 %s) with a %s at #%d", h.name, holder, h.target, other.Name(), at)
						if !r.WantCell(cell) {
							continue
						}
						n++
						r.Case(cell, true, "lists errors")
						l := mk(3)
						l[at] = bad
						var arg ap.Item = l
						if holder == "*ItemCollection" {
							arg = &l
						}
						c08Inside = func(interface{}) error { return nil }
						c08LastErr = nil
						pi := evSafe(func() { _, _ = h.call(arg) })
						c08Inside = nil
						if pi != nil {
							r.Report("lists", cell, "view "+h.name+" list-error panic@"+pi.Frame, pi.Value, cell)
						} else if c08LastErr == nil {
							r.Report("lists", cell, "view "+h.name+" list-error refusal-lost", fmt.Sprintf("a *%s alone is refused; as member #%d of 3 the helper returned nil", other.Name(), at), cell)
						}
					}
				}
			}
		}
		// a vocabulary collection is not an item list: handed to an On* helper it is viewed as what it is (or refused) - the callback
		// never gets one of its members instead
		for _, h := range c08Helpers {
			if !strings.HasPrefix(h.name, "On") {
				continue
			}
			for _, ck := range []string{"Collection", "OrderedCollection", "CollectionPage", "OrderedCollectionPage"} {
				cell := fmt.Sprintf("%s(*%s holding %s members)", h.name, ck, h.target)
				if !r.WantCell(cell) {
					continue
				}
				n++
				r.Case(cell, true, "lists collection="+ck)
				st := vocab.StructType(h.target)
				var members []reflect.Value
				l := ap.ItemCollection{}
				for k := 0; k < 2; k++ {
					m := c08Populate(st, k)
					members = append(members, m)
					l = append(l, m.Interface().(ap.Item))
				}
				cp := reflect.New(vocab.StructType(ck))
				cp.Elem().FieldByName("ID").SetString("https://example.com/the-collection")
				cp.Elem().FieldByName("Type").SetString(string(vocab.DefaultType[ck]))
				for _, fn := range []string{"Items", "OrderedItems"} {
					if f := cp.Elem().FieldByName(fn); f.IsValid() {
						f.Set(reflect.ValueOf(l))
					}
				}
				var seen []uintptr
				c08Inside = func(v interface{}) error { seen = append(seen, reflect.ValueOf(v).Pointer()); return nil }
				pi := evSafe(func() { _, _ = h.call(cp.Interface().(ap.Item)) })
				c08Inside = nil
				if pi != nil {
					r.Report("lists", cell, "view "+h.name+" collection panic@"+pi.Frame, pi.Value, cell)
					continue
				}
				for _, p := range seen {
					for k := range members {
						if p == members[k].Pointer() {
							r.Report("lists", cell, "view "+h.name+" collection member-instead", fmt.Sprintf("handed a *%s, the callback was run with its member #%d", ck, k), cell)
						}
					}
				}
			}
		}
		r.Cells(n, n)
		r.Exhaustive("lists", !r.Replaying())
	}

	// census of the conversion sites: completeness of the generated domain, not a verdict
	repo := os.Getenv("VERIF_REPO")
	if repo == "" {
		repo = "/repo"
	}
	sites, err := c08Census(repo)
	if err != nil {
		r.Uncovered("census failed: " + err.Error())
	}
	reached := 0
	for _, s := range sites {
		parts := strings.Fields(s) // fn type form -> target
		if covered[parts[0]+" "+parts[1]+" "+parts[2]] {
			reached++
		} else {
			r.Uncovered("UNCOVERED conversion site " + s)
		}
	}
	r.Note("conversion_sites", len(sites))
	r.Note("conversion_sites_exercised", reached)
	_ = unsafe.Sizeof(0)
}
