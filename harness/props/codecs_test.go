package props

import (
	"encoding"
	"encoding/gob"
	"encoding/json"
	"fmt"
	"reflect"
	"strings"

	ap "github.com/go-ap/activitypub"
	"verif/harness/vocab"
)

// codec is one encode/decode entry pair of the library.
type codec struct {
	name   string
	encode func(x ap.Item) ([]byte, error)
	decode func(x ap.Item, b []byte) (ap.Item, error) // x only names the Go type for the typed pairs
	form   vocab.Form
}

func newOf(x ap.Item) reflect.Value {
	t := reflect.TypeOf(x)
	if t.Kind() == reflect.Ptr {
		t = t.Elem()
	}
	return reflect.New(t)
}

// What a decoder returns belongs to the caller.  Every decode of the round-trip codecs is followed by the decoding of an unrelated
// document of about the same size through the package entry point, so that a value still pointing into a buffer the decoders reuse
// (a pooled parser, a scratch slice) is seen changed by the comparison that follows.
func clobberJSON(n int) {
	if n > 1<<16 {
		n = 1 << 16
	}
	pad := strings.Repeat("#~", n/4+8)
	_, _ = ap.UnmarshalJSON([]byte(`{"type":"Note","id":"https://example.com/unrelated/` + pad + `","nameMap":{"de":"` + pad + `","es":"` + pad + `"},"to":["https://example.com/` + pad + `"]}`))
}

var clobberGobDoc = map[int][]byte{}

func clobberGob(n int) {
	if n > 1<<16 {
		n = 1 << 16
	}
	k := n/64 + 1
	b, ok := clobberGobDoc[k]
	if !ok {
		pad := strings.Repeat("#~", k*16+8)
		b, _ = ap.GobEncode(&ap.Object{ID: ap.IRI("https://example.com/unrelated/" + pad), Type: ap.NoteType, Name: ap.NaturalLanguageValues{{Ref: "de", Value: ap.Content(pad)}, {Ref: "es", Value: ap.Content(pad)}}})
		clobberGobDoc[k] = b
	}
	_, _ = ap.GobDecode(b)
}

var (
	codecJSONPkg = codec{"pkg", func(x ap.Item) ([]byte, error) { return ap.MarshalJSON(x) },
		func(_ ap.Item, b []byte) (ap.Item, error) {
			it, err := ap.UnmarshalJSON(b)
			clobberJSON(len(b))
			return it, err
		}, vocab.JSONForm}
	codecJSONTyped = codec{"typed", func(x ap.Item) ([]byte, error) {
		m, ok := x.(json.Marshaler)
		if !ok {
			return nil, fmt.Errorf("%T has no MarshalJSON", x)
		}
		return m.MarshalJSON()
	}, func(x ap.Item, b []byte) (ap.Item, error) {
		n := newOf(x)
		u, ok := n.Interface().(json.Unmarshaler)
		if !ok {
			return nil, fmt.Errorf("%T has no UnmarshalJSON", n.Interface())
		}
		if err := u.UnmarshalJSON(b); err != nil {
			return nil, err
		}
		clobberJSON(len(b))
		return n.Interface().(ap.Item), nil
	}, vocab.JSONForm}
	codecGobPkg = codec{"pkg", func(x ap.Item) ([]byte, error) { return ap.GobEncode(x) },
		func(_ ap.Item, b []byte) (ap.Item, error) {
			it, err := ap.GobDecode(b)
			clobberGob(len(b))
			return it, err
		}, vocab.GobForm}
	codecGobTyped = codec{"typed", func(x ap.Item) ([]byte, error) {
		m, ok := x.(gob.GobEncoder)
		if !ok {
			return nil, fmt.Errorf("%T has no GobEncode", x)
		}
		return m.GobEncode()
	}, func(x ap.Item, b []byte) (ap.Item, error) {
		n := newOf(x)
		u, ok := n.Interface().(gob.GobDecoder)
		if !ok {
			return nil, fmt.Errorf("%T has no GobDecode", n.Interface())
		}
		if err := u.GobDecode(b); err != nil {
			return nil, err
		}
		clobberGob(len(b))
		return n.Interface().(ap.Item), nil
	}, vocab.GobForm}
	codecBinary = codec{"binary", func(x ap.Item) ([]byte, error) {
		m, ok := x.(encoding.BinaryMarshaler)
		if !ok {
			return nil, fmt.Errorf("%T has no MarshalBinary", x)
		}
		return m.MarshalBinary()
	}, func(x ap.Item, b []byte) (ap.Item, error) {
		n := newOf(x)
		u, ok := n.Interface().(encoding.BinaryUnmarshaler)
		if !ok {
			return nil, fmt.Errorf("%T has no UnmarshalBinary", n.Interface())
		}
		if err := u.UnmarshalBinary(b); err != nil {
			return nil, err
		}
		return n.Interface().(ap.Item), nil
	}, vocab.GobForm}
)

// roundTrip encodes and decodes x through c and returns keyed differences.  prefix is the key prefix ("json-rt").
// rootCell names the cell blamed for root-level failures (encode/decode error, panic, nothing written).
type keyed struct {
	Key    string
	Detail string
}

func roundTrip(c codec, x ap.Item, prefix, rootCell string) (out []keyed, encoded []byte) {
	var b []byte
	var back ap.Item
	var err error
	stage := "encode"
	pi := evSafe(func() {
		b, err = c.encode(x)
		if err != nil {
			return
		}
		stage = "decode"
		back, err = c.decode(x, b)
	})
	encoded = b
	switch {
	case pi != nil:
		return []keyed{{fmt.Sprintf("%s %s panic@%s", prefix, rootCell, pi.Frame), fmt.Sprintf("%s panicked: %s", stage, pi.Value)}}, b
	case err != nil:
		return []keyed{{fmt.Sprintf("%s %s %s-error", prefix, rootCell, stage), fmt.Sprintf("%s error: %v", stage, err)}}, b
	}
	for _, d := range vocab.DiffTop(x, back, c.form) {
		k := d.Key(prefix)
		if d.Cell == "root" {
			k = fmt.Sprintf("%s %s root:%s", prefix, rootCell, d.Shape)
		}
		out = append(out, keyed{k, d.String() + fmt.Sprintf(" (encoded: %s)", clipBytes(b, 300))})
	}
	return out, b
}

func clipBytes(b []byte, n int) string {
	if len(b) > n {
		return fmt.Sprintf("%q…", b[:n])
	}
	return fmt.Sprintf("%q", b)
}
