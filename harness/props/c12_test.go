package props

import (
	"encoding"
	"encoding/gob"
	"encoding/json"
	"fmt"
	"os"
	"reflect"
	"runtime"
	"strings"
	"sync"
	"testing"
	"time"

	ap "github.com/go-ap/activitypub"
	"pgregory.net/rapid"
	"verif/harness/ev"
	"verif/harness/vocab"
)

// C12 — Read-only operations never modify their arguments and are race-free.

type c12Op struct {
	name string
	run  func(x ap.Item) string // returns a fingerprint of the result
}

func c12Fingerprint(b []byte, err error) string { return fmt.Sprintf("%x|%v", b, err) }

// c12GobFingerprint: gob output is a map of properties whose order Go randomises, so two encodings of one value differ in
// their bytes; the result is compared by what it decodes to.
func c12GobFingerprint(x ap.Item, b []byte, err error) string {
	if err != nil {
		return "error " + err.Error()
	}
	n := newOf(x)
	if u, ok := n.Interface().(gob.GobDecoder); ok && reflect.TypeOf(x).Kind() == reflect.Ptr {
		if derr := u.GobDecode(b); derr == nil {
			return fmt.Sprintf("%d bytes decoding to %s", len(b), vocab.Dump(n.Interface()))
		}
	}
	if it, derr := ap.GobDecode(b); derr == nil {
		return fmt.Sprintf("%d bytes decoding to %s", len(b), vocab.Dump(it))
	}
	return fmt.Sprintf("%d bytes (not decodable)", len(b))
}

// c12RepeatRecipients names one addressee in to and again, in front of another entry, in cc and bcc of every node that has them.
func c12RepeatRecipients(x ap.Item) {
	n := 0
	vocab.Walk(x, 0, func(path string, depth int, node reflect.Value) {
		to, cc, bcc := node.FieldByName("To"), node.FieldByName("CC"), node.FieldByName("BCC")
		if !node.CanSet() || !to.IsValid() || !cc.IsValid() || !bcc.IsValid() || n >= 4 {
			return
		}
		n++
		who := ap.IRI(fmt.Sprintf("https://example.com/repeated/%d", n))
		prepend := func(f reflect.Value, more ...ap.Item) {
			l := append(append(ap.ItemCollection{}, more...), f.Interface().(ap.ItemCollection)...)
			f.Set(reflect.ValueOf(l))
		}
		// the public collection under its compact names (as:Public, Public), which a writer may want to spell out - in what it writes
		prepend(to, who, ap.IRI(fmt.Sprintf("https://example.com/only-to/%d", n)), ap.IRI("as:Public"))
		prepend(cc, who, ap.IRI(fmt.Sprintf("https://example.com/only-cc/%d", n)), ap.IRI("Public"), ap.PublicNS)
		prepend(bcc, &ap.Actor{ID: who, Type: ap.PersonType}, ap.IRI(fmt.Sprintf("https://example.com/only-bcc/%d", n)))
	})
}

// c12NestLists makes up to three item lists of a value hold a list as one of their members (what "tag":["a",["b"],"c"] decodes to):
// a list of one in place of a member, an empty list, a list of two held through a pointer, an IRI list.
func c12NestLists(x ap.Item) {
	n := 0
	nest := func(l ap.ItemCollection) ap.ItemCollection {
		if len(l) == 0 {
			return l
		}
		n++
		at := (n * 5) % len(l)
		var inner ap.Item
		switch n % 4 {
		case 0:
			inner = ap.ItemCollection{l[at]}
		case 1:
			inner = ap.ItemCollection{}
		case 2:
			two := ap.ItemCollection{l[at], ap.IRI(fmt.Sprintf("https://example.com/nested/%d", n))}
			inner = &two
		default:
			inner = ap.IRIs{ap.IRI(fmt.Sprintf("https://example.com/nested/%d", n))}
		}
		nl := append(append(append(ap.ItemCollection{}, l[:at]...), inner), l[at:]...)
		if n%4 == 0 || n%4 == 2 {
			nl = append(append(append(ap.ItemCollection{}, l[:at]...), inner), l[at+1:]...)
		}
		return nl
	}
	vocab.Walk(x, 0, func(path string, depth int, node reflect.Value) {
		if !node.CanSet() {
			return
		}
		for _, f := range vocab.Fields(node.Type()) {
			if f.Kind != vocab.KItems || n >= 3 {
				continue
			}
			fv := node.Field(f.Index)
			if l := fv.Interface().(ap.ItemCollection); len(l) > 0 {
				fv.Set(reflect.ValueOf(nest(l)))
			}
		}
	})
}

// c12CaseTypes spells the type names of up to four nodes in another letter case ("note", "PERSON": what other servers send, and
// what the predicates take for the same type).
func c12CaseTypes(x ap.Item) {
	n := 0
	vocab.Walk(x, 0, func(path string, depth int, node reflect.Value) {
		if !node.CanSet() || n >= 4 {
			return
		}
		f := node.FieldByName("Type")
		if !f.IsValid() || f.Kind() != reflect.String || f.Len() == 0 {
			return
		}
		n++
		if n%2 == 0 {
			f.SetString(strings.ToUpper(f.String()))
		} else {
			f.SetString(strings.ToLower(f.String()))
		}
	})
}

// c12EmptyTags gives the language lists of up to four nodes a second entry and puts one entry under the empty tag.
func c12EmptyTags(x ap.Item) {
	n := 0
	vocab.Walk(x, 0, func(path string, depth int, node reflect.Value) {
		if !node.CanSet() || n >= 4 {
			return
		}
		for _, f := range vocab.Fields(node.Type()) {
			if f.Kind != vocab.KNLV {
				continue
			}
			fv := node.Field(f.Index)
			l := fv.Interface().(ap.NaturalLanguageValues)
			if len(l) == 0 {
				continue
			}
			n++
			nl := append(append(ap.NaturalLanguageValues{}, l...), ap.LangRefValue{Ref: "", Value: ap.Content("under the empty tag")}, ap.LangRefValue{Ref: "de", Value: ap.Content("noch eins")})
			fv.Set(reflect.ValueOf(nl))
		}
	})
}

// c12Twin is a deep copy of x with every language list and every item list of every node in reverse order.
func c12Twin(x ap.Item) ap.Item {
	y := vocab.CloneItem(x)
	vocab.Walk(y, 0, func(path string, depth int, node reflect.Value) {
		if !node.CanSet() {
			return
		}
		for _, f := range vocab.Fields(node.Type()) {
			fv := node.Field(f.Index)
			switch f.Kind {
			case vocab.KNLV:
				n := fv.Interface().(ap.NaturalLanguageValues)
				for i, j := 0, len(n)-1; i < j; i, j = i+1, j-1 {
					n[i], n[j] = n[j], n[i]
				}
			case vocab.KItems:
				l := fv.Interface().(ap.ItemCollection)
				for i, j := 0, len(l)-1; i < j; i, j = i+1, j-1 {
					l[i], l[j] = l[j], l[i]
				}
			}
		}
	})
	return y
}

var c12Ops = []c12Op{
	{"MarshalJSON(pkg)", func(x ap.Item) string { return c12Fingerprint(ap.MarshalJSON(x)) }},
	{"MarshalJSON(method)", func(x ap.Item) string {
		if m, ok := x.(json.Marshaler); ok {
			return c12Fingerprint(m.MarshalJSON())
		}
		return "n/a"
	}},
	{"GobEncode(pkg)", func(x ap.Item) string { b, err := ap.GobEncode(x); return c12GobFingerprint(x, b, err) }},
	{"GobEncode(method)", func(x ap.Item) string {
		if m, ok := x.(gob.GobEncoder); ok {
			b, err := m.GobEncode()
			return c12GobFingerprint(x, b, err)
		}
		return "n/a"
	}},
	{"MarshalBinary", func(x ap.Item) string {
		if m, ok := x.(encoding.BinaryMarshaler); ok {
			b, err := m.MarshalBinary()
			return c12GobFingerprint(x, b, err)
		}
		return "n/a"
	}},
	{"ItemsEqual(x,x)", func(x ap.Item) string { return fmt.Sprint(ap.ItemsEqual(x, x)) }},
	// comparing with another value that says the same in another order (language entries and list members reversed) reads both sides:
	// neither is changed by it.  x is watched by the battery, the twin here.
	{"ItemsEqual(x,twin)", func(x ap.Item) string {
		twin := c12Twin(x)
		snap := vocab.Clone(twin)
		r1 := ap.ItemsEqual(x, twin)
		r2 := ap.ItemsEqual(twin, x)
		if d := vocab.ExactDiff(snap, twin); len(d) > 0 {
			return fmt.Sprintf("%v %v the twin changed: %s", r1, r2, strings.Join(d, "; "))
		}
		return fmt.Sprint(r1, r2)
	}},
	{"Format", func(x ap.Item) string {
		s := fmt.Sprintf("%s|%v|%q|%+v", x, x, x, x)
		if strings.Contains(s, "0xc0") {
			return "has-addresses" // %v of nested pointers prints addresses: not comparable, only exercised
		}
		return s
	}},
	{"IsNil/NotEmpty/predicates", func(x ap.Item) string {
		return fmt.Sprint(ap.IsNil(x), ap.NotEmpty(x), ap.IsObject(x), ap.IsLink(x), ap.IsIRI(x), ap.IsItemCollection(x), x.IsObject(), x.IsLink(), x.IsCollection(), x.GetType(), x.GetLink(), x.GetID())
	}},
	{"type-lists", func(x ap.Item) string {
		t := x.GetType()
		return fmt.Sprint(ap.ObjectTypes.Contains(t), ap.ActorTypes.Contains(t), ap.ActivityTypes.Contains(t), ap.IntransitiveActivityTypes.Contains(t), ap.CollectionTypes.Contains(t), ap.LinkTypes.Contains(t))
	}},
	{"DerefItem", func(x ap.Item) string { return fmt.Sprint(len(ap.DerefItem(x))) }},
	{"On/To(read-only)", func(x ap.Item) string {
		var sb strings.Builder
		_ = ap.OnObject(x, func(o *ap.Object) error {
			if o == nil {
				return nil // a nil-like member of a list: callbacks may receive nil (C20)
			}
			fmt.Fprint(&sb, "o:", o.ID, len(o.To), len(o.Name), o.Published.Unix())
			return nil
		})
		_ = ap.OnActivity(x, func(a *ap.Activity) error {
			if a != nil {
				fmt.Fprint(&sb, "a:", a.ID, a.Actor != nil, a.Object != nil)
			}
			return nil
		})
		_ = ap.OnActor(x, func(a *ap.Actor) error {
			if a != nil {
				fmt.Fprint(&sb, "p:", a.ID, a.Inbox != nil)
			}
			return nil
		})
		_ = ap.OnIntransitiveActivity(x, func(a *ap.IntransitiveActivity) error {
			if a != nil {
				fmt.Fprint(&sb, "i:", a.ID, a.Actor != nil)
			}
			return nil
		})
		_ = ap.OnCollectionIntf(x, func(c ap.CollectionInterface) error {
			fmt.Fprint(&sb, "c:", c.Count(), len(c.Collection()))
			return nil
		})
		_ = ap.OnLink(x, func(l *ap.Link) error {
			if l != nil {
				fmt.Fprint(&sb, "l:", l.Href)
			}
			return nil
		})
		if ap.IsItemCollection(x) || ap.IsIRIs(x) {
			if iris, err := ap.ToIRIs(x); err == nil && iris != nil {
				fmt.Fprint(&sb, "iris:", len(*iris))
			}
			_ = ap.OnIRIs(x, func(i *ap.IRIs) error { fmt.Fprint(&sb, "oniris:", len(*i)); return nil })
			_ = ap.OnItemCollection(x, func(c *ap.ItemCollection) error { fmt.Fprint(&sb, "onitems:", len(*c)); return nil })
		}
		_ = ap.OnItem(x, func(it ap.Item) error {
			if !ap.IsNil(it) {
				fmt.Fprint(&sb, "it:", it.GetLink())
			}
			return nil
		})
		if o, err := ap.ToObject(x); err == nil && o != nil {
			fmt.Fprint(&sb, "to:", o.Type)
		}
		_ = ap.On[ap.Object](x, func(o *ap.Object) error {
			if o != nil {
				fmt.Fprint(&sb, "gen-o:", o.ID)
			}
			return nil
		})
		_ = ap.On[*ap.Object](x, func(o **ap.Object) error {
			if o != nil && *o != nil {
				fmt.Fprint(&sb, "gen-po:", (*o).ID)
			}
			return nil
		})
		if p, err := ap.To[*ap.Actor](x); err == nil && p != nil && *p != nil {
			fmt.Fprint(&sb, "gen-pa:", (*p).ID)
		}
		return sb.String()
	}},
	{"lists(read-only)", func(x ap.Item) string {
		var sb strings.Builder
		_ = ap.OnObject(x, func(o *ap.Object) error {
			if o == nil {
				return nil
			}
			// the object's own lists viewed through a pointer (set or nil): reading through the pointer must not initialise or reshape them
			for _, lp := range []*ap.ItemCollection{&o.To, &o.CC, &o.Bto, &o.BCC, &o.Tag, &o.Audience} {
				fmt.Fprint(&sb, "deref:", len(ap.DerefItem(lp)), lp.Count(), len(lp.Collection()), ap.IsNil(lp), ap.NotEmpty(lp))
				_ = ap.OnCollectionIntf(lp, func(c ap.CollectionInterface) error {
					if c != nil {
						fmt.Fprint(&sb, "intf:", c.Count(), len(c.Collection()))
					}
					return nil
				})
				_ = ap.OnItemCollection(lp, func(c *ap.ItemCollection) error {
					if c != nil {
						fmt.Fprint(&sb, "onitems-ptr:", len(*c))
					}
					return nil
				})
			}
			for _, l := range []ap.ItemCollection{o.To, o.CC, o.Tag, o.Audience} {
				fmt.Fprint(&sb, l.Contains(ap.IRI("https://example.com/none")), len(l.IRIs()), l.Count(), l.First() != nil, ";")
				if iris, err := ap.ToIRIs(l); err == nil && iris != nil {
					fmt.Fprint(&sb, "iris:", len(*iris))
				}
				_ = ap.OnIRIs(l, func(i *ap.IRIs) error { fmt.Fprint(&sb, "oniris:", len(*i)); return nil })
				_ = ap.OnItemCollection(l, func(c *ap.ItemCollection) error { fmt.Fprint(&sb, "onitems:", len(*c)); return nil })
				fmt.Fprint(&sb, "norm:", ap.IsNil(l.Normalize()), l.ItemsMatch(ap.IRI("https://example.com/none")), len(l.Collection()))
				if len(l) > 0 {
					fmt.Fprint(&sb, l.Contains(l[len(l)-1]))
				}
			}
			return nil
		})
		return sb.String()
	}},
	{"decode-unrelated", func(x ap.Item) string {
		// decoding independent inputs while x is held
		it, err := ap.UnmarshalJSON([]byte(c12Doc2))
		it2, err2 := ap.UnmarshalJSON([]byte(c12Doc))
		return fmt.Sprint(err == nil && it != nil, err2 == nil && it2 != nil)
	}},
	{"ItemOrderTimestamp", func(x ap.Item) string {
		if ap.IsObject(x) {
			return fmt.Sprint(ap.ItemOrderTimestamp(x, x))
		}
		return "n/a"
	}},
	{"CollectionPath", func(x ap.Item) string {
		return fmt.Sprint(ap.Inbox.IRI(x), ap.Likes.IRI(x), ap.Followers.Of(x) != nil, ap.Replies.Of(x) != nil)
	}},
	{"NaturalLanguage(read-only)", func(x ap.Item) string {
		var sb strings.Builder
		_ = ap.OnObject(x, func(o *ap.Object) error {
			if o == nil {
				return nil
			}
			fmt.Fprint(&sb, o.Name.Get("en"), o.Name.First(), o.Content.Equals(o.Content), o.Summary.String())
			b, err := o.Name.MarshalJSON()
			fmt.Fprint(&sb, c12Fingerprint(b, err))
			return nil
		})
		return sb.String()
	}},
}

// c12Spare re-allocates every item list of a value with spare capacity holding sentinels, so that a write beyond len shows.
func c12Spare(x ap.Item) {
	vocab.Walk(x, 0, func(path string, depth int, node reflect.Value) {
		if !node.CanSet() {
			return
		}
		for _, f := range vocab.Fields(node.Type()) {
			if f.Kind != vocab.KItems {
				continue
			}
			fv := node.Field(f.Index)
			l := fv.Interface().(ap.ItemCollection)
			if l == nil {
				continue
			}
			nl := make(ap.ItemCollection, len(l), len(l)+3)
			copy(nl, l)
			full := nl[:cap(nl)]
			for i := len(l); i < cap(nl); i++ {
				full[i] = ap.IRI(fmt.Sprintf("https://sentinel.example/%s/%d", f.Name, i))
			}
			fv.Set(reflect.ValueOf(nl))
		}
	})
}

var c12Gen = rapid.Custom(func(t *rapid.T) ap.Item {
	depth := rapid.IntRange(0, 3).Draw(t, "depth")
	// texts and free strings are hostile now and then (control characters, quotes, backslashes take the escaping paths of the encoders)
	hostile := func(t *rapid.T) string {
		if rapid.IntRange(0, 2).Draw(t, "hostile") == 0 {
			return rapid.SampledFrom([]string{"bell\x07", "unit\x1fsep", "\x01\x02", "quote\"d", "back\\slash", "nul\x00", "line\nfeed\ttab", "\u2028sep", "mixed \x03 and \x1e"}).Draw(t, "text")
		}
		return "plain text " + rapid.SampledFrom([]string{"a", "b", "c"}).Draw(t, "w")
	}
	g := vocab.NewGen(t, vocab.Opts{MaxDepth: depth, Gob: true, ValueForms: true, MaxNodes: 14, Density: []int{10, 25, 50, 75}, Text: hostile, Str: hostile})
	var x ap.Item
	switch rapid.IntRange(0, 11).Draw(t, "top") {
	case 0:
		x = g.Items(depth)
	case 1:
		x = ap.IRIs{g.ID("a"), g.ID("b")}
	default:
		x = g.Value(rapid.SampledFrom(goTypeNames).Draw(t, "gotype"), depth, false)
	}
	// now and then an item list holds an empty or nil IRI ("" or "-") in front of real members: operations that skip such members
	// must skip them without compacting the list they were handed
	if rapid.IntRange(0, 2).Draw(t, "plant-empty-iris") == 0 {
		n := 0
		vocab.Walk(x, 0, func(path string, depth int, node reflect.Value) {
			if !node.CanSet() {
				return
			}
			for _, f := range vocab.Fields(node.Type()) {
				if f.Kind != vocab.KItems {
					continue
				}
				fv := node.Field(f.Index)
				l := fv.Interface().(ap.ItemCollection)
				if len(l) == 0 || n >= 3 {
					continue
				}
				n++
				at := (n * 7) % (len(l) + 1)
				empty := []ap.Item{ap.IRI(""), ap.NilIRI}[n%2]
				nl := append(append(append(ap.ItemCollection{}, l[:at]...), empty), l[at:]...)
				fv.Set(reflect.ValueOf(nl))
			}
		})
		if l, ok := x.(ap.ItemCollection); ok && len(l) > 0 {
			x = append(ap.ItemCollection{ap.NilIRI}, l...)
		}
	}
	// now and then one addressee is named twice, in to and in cc, in front of other entries: the state in which the de-duplicating
	// helpers have something to remove - which the read-only operations must not do for them
	if rapid.IntRange(0, 2).Draw(t, "plant-repeated-recipients") == 0 {
		c12RepeatRecipients(x)
	}
	// now and then a language list of several entries holds one under the empty tag (not the nil tag "-"): a spelling an encoder may
	// want to normalise - in what it writes
	if rapid.IntRange(0, 2).Draw(t, "plant-empty-tag") == 0 {
		c12EmptyTags(x)
	}
	// now and then type names are spelt in another letter case: an operation that knows the usual spelling keeps it to itself
	if rapid.IntRange(0, 3).Draw(t, "plant-case-types") == 0 {
		c12CaseTypes(x)
	}
	// now and then a list holds a list as one of its members: operations that look through such a member look, they do not splice
	if rapid.IntRange(0, 3).Draw(t, "plant-nested-lists") == 0 {
		c12NestLists(x)
		if l, ok := x.(ap.ItemCollection); ok && len(l) > 1 {
			x = append(ap.ItemCollection{l[0], ap.ItemCollection{l[1]}}, l[1:]...)
		}
	}
	// a value that came out of the decoder (it may still share memory with whatever the decoder used): a later decode of an unrelated
	// document, one of the operations below, must not change it
	if rapid.IntRange(0, 3).Draw(t, "from-decoder") == 0 {
		if b, err := ap.MarshalJSON(x); err == nil && len(b) > 0 {
			if y, err := ap.UnmarshalJSON(b); err == nil && !ap.IsNil(y) {
				return y
			}
		}
	}
	c12Spare(x)
	return x
})

// c12Sequential runs the battery twice on x and compares results and state.
func c12Sequential(x ap.Item) (ds []keyed, results []string) {
	gt := vocab.GoTypeName(x)
	snap := vocab.CloneItem(x)
	for _, op := range c12Ops {
		var r1, r2 string
		pi := evSafe(func() { r1 = op.run(x) })
		if pi != nil {
			ds = append(ds, keyed{"mutates " + op.name + " panic@" + pi.Frame, pi.Value})
			results = append(results, "panic")
			continue
		}
		if d := vocab.ExactDiff(snap, x); len(d) > 0 {
			ds = append(ds, keyed{"mutates " + op.name + " " + gt, "the argument changed: " + strings.Join(d, "; ")})
			return ds, results
		}
		_ = evSafe(func() { r2 = op.run(x) })
		if r1 != r2 && r1 != "has-addresses" {
			ds = append(ds, keyed{"unstable " + op.name + " " + gt, fmt.Sprintf("two runs give different results: %s vs %s", clipStr(r1, 200), clipStr(r2, 200))})
		}
		results = append(results, r1)
	}
	return ds, results
}

// c12Doc2: an unrelated document, long enough to overwrite whatever buffer an earlier decode may have left shared
const c12Doc2 = `{"type":"Note","id":"https://unrelated.example.net/n/2","source":{"content":"zzzzzzzzzzzzzzzzzzzzzzzzzzzzzzzzzzzzzzzzzzzzzzzzzzzzzzzzzzzzzzzzzzzzzzzzzzzzzzzzzzzzzzzz","mediaType":"text/plain"},"content":"yyyyyyyyyyyyyyyyyyyyyyyyyyyyyyyyyyyyyyyyyyyyyyyyyyyyyyyyyyyyyyyyyyyyyyyyyyyyyyyyyyyyyyyyyyyyyyyyyyyyyyyyyyyyyyyyyy","name":"xxxxxxxxxxxxxxxxxxxxxxxxxxxxxxxxxxxxxxxxxxxxxxxxxxxxxxxxxxxxxxxxxxxxxxxxxxxxxxxxxxxxxxxxxxxxxxxxxxxxxxxxxxxx","summaryMap":{"en":"wwwwwwwwwwwwwwwwwwwwwwwwwwwwwwwwwwwwwwwwwwwwwwwwwwwwwwwwww","fr":"vvvvvvvvvvvvvvvvvvvvvvvvvvvvvvvvvvvvvvvvvvvvvvvvvv"},"to":["https://unrelated.example.net/a","https://unrelated.example.net/b","https://unrelated.example.net/c"]}`

const c12Doc = `{"@context":"https://www.w3.org/ns/activitystreams","id":"https://example.com/a/1","type":"Create","actor":{"id":"https://example.com/u/1","type":"Person","name":"A","inbox":"https://example.com/u/1/inbox"},"object":{"id":"https://example.com/n/1","type":"Note","contentMap":{"en":"hi","fr":"salut"},"to":["https://www.w3.org/ns/activitystreams#Public","https://example.com/u/1/followers","https://example.com/u/3"],"cc":["https://example.com/u/4","https://example.com/u/5"],"tag":[{"type":"Mention","href":"https://example.com/u/2"}]},"published":"2021-01-02T03:04:05Z"}`

// c12Concurrent: 8 goroutines run the battery on the shared value while 4 decode independent inputs.  The concurrent phase
// runs first (cold: nothing has touched the value or its IRIs before), the sequential reference results are computed afterwards.
var c12Counter int

func c12Concurrent(x ap.Item) (ds []keyed) {
	gt := vocab.GoTypeName(x)
	snap := vocab.CloneItem(x)
	c12Counter++
	doc := strings.ReplaceAll(c12Doc, "example.com", fmt.Sprintf("host%d.example.com", c12Counter))
	gobDoc, _ := ap.GobEncode(&ap.Object{ID: ap.IRI(fmt.Sprintf("https://host%d.example.com/o", c12Counter)), Type: ap.NoteType, Name: ap.DefaultNaturalLanguageValue("n"),
		To: ap.ItemCollection{ap.IRI(fmt.Sprintf("https://host%d.example.com/t", c12Counter)), ap.IRI(fmt.Sprintf("https://host%d.example.com/u", c12Counter))}})
	var mu sync.Mutex
	var wg sync.WaitGroup
	start := make(chan struct{})
	got := make([][]string, 8)
	for g := 0; g < 8; g++ {
		got[g] = make([]string, len(c12Ops))
		wg.Add(1)
		go func(g int) {
			defer wg.Done()
			<-start
			for round := 0; round < 2; round++ {
				for i := range c12Ops {
					k := (i + g) % len(c12Ops)
					op := c12Ops[k]
					var res string
					if pi := evSafe(func() { res = op.run(x) }); pi != nil {
						mu.Lock()
						ds = append(ds, keyed{"race " + op.name + " panic@" + pi.Frame, pi.Value})
						mu.Unlock()
						res = "panic"
					}
					got[g][k] = res
				}
			}
		}(g)
	}
	for g := 0; g < 4; g++ {
		wg.Add(1)
		go func(g int) {
			defer wg.Done()
			<-start
			for round := 0; round < 6; round++ {
				var err error
				var it ap.Item
				if g%2 == 0 {
					it, err = ap.UnmarshalJSON([]byte(doc))
				} else {
					it, err = ap.GobDecode(gobDoc)
				}
				if err != nil || it == nil {
					mu.Lock()
					ds = append(ds, keyed{"race decode-independent-input", fmt.Sprintf("decoding an unrelated input failed: %v", err)})
					mu.Unlock()
				}
			}
		}(g)
	}
	close(start)
	wg.Wait()
	if d := vocab.ExactDiff(snap, x); len(d) > 0 {
		ds = append(ds, keyed{"mutates concurrent-battery " + gt, "the shared value changed: " + strings.Join(d, "; ")})
		return ds
	}
	seqDs, want := c12Sequential(x)
	ds = append(ds, seqDs...)
	for g := range got {
		for k, res := range got[g] {
			if k < len(want) && res != want[k] && want[k] != "has-addresses" && want[k] != "panic" && res != "panic" {
				ds = append(ds, keyed{"race " + c12Ops[k].name + " result-differs " + gt, fmt.Sprintf("concurrent result %s differs from the sequential one %s", clipStr(res, 200), clipStr(want[k], 200))})
			}
		}
	}
	return ds
}

func c12ConcurrentValue(i int, seed int) ap.Item {
	cells, _ := vocab.SingleCells(true)
	if i < len(vocab.StructTypes) {
		x := vocab.Everything(vocab.StructTypes[i], true)
		if sv, ok := vocab.StructOf(x); ok && i%2 == 0 {
			// control characters in two text properties: the encoders' escaping paths run concurrently
			if f := sv.FieldByName("Summary"); f.IsValid() {
				f.Set(reflect.ValueOf(ap.NaturalLanguageValues{{Ref: "en", Value: ap.Content("bell\x07 and unit\x1fseparator")}, {Ref: "fr", Value: ap.Content("\x01\x02\x03")}}))
			}
			sv.FieldByName("Name").Set(reflect.ValueOf(ap.DefaultNaturalLanguageValue("name with \x1e and \x04")))
		}
		if i%3 == 1 {
			c12RepeatRecipients(x)
		}
		if i%4 == 2 {
			c12EmptyTags(x)
		}
		if i%3 == 2 {
			c12NestLists(x)
		}
		if i%5 == 3 {
			c12CaseTypes(x)
		}
		c12Spare(x)
		return x
	}
	if i%3 == 0 {
		x := cells[(i*37+seed)%len(cells)].Value
		c12Spare(x)
		return x
	}
	x := c12Gen.Example(seed*100003 + i)
	if i%5 == 1 {
		// decoded from a document with a plain source content
		doc := fmt.Sprintf(`{"type":"Note","id":"https://example.com/decoded/%d","source":{"content":"the source text of note %d","mediaType":"text/markdown"},"content":"rendered %d","name":"decoded note","to":["https://example.com/u/1"]}`, i, i, i)
		if y, err := ap.UnmarshalJSON([]byte(doc)); err == nil && !ap.IsNil(y) {
			return y
		}
	}
	return x
}

func TestC12(t *testing.T) {
	nConc := 100
	if os.Getenv("VERIF_TIER") == "thorough" {
		nConc = 1500
	}
	seed := 1
	fmt.Sscan(os.Getenv("VERIF_SEED"), &seed)
	shard := 0
	fmt.Sscan(os.Getenv("VERIF_SHARD"), &shard)
	if childLayer() == "concurrent" {
		procs := []int{runtime.NumCPU(), 2, 4, 8, 1}
		runChild(nConc, func(i int) ([]keyed, string) {
			// schedule variety: the cells rotate through several degrees of real parallelism
			runtime.GOMAXPROCS(procs[i%len(procs)])
			x := c12ConcurrentValue(i, seed+shard*7919)
			ft := vocab.FeaturesOf(x)
			return c12Concurrent(x), fmt.Sprintf("%s lists=%v text=%v %s", vocab.GoTypeName(x), ft.Kinds[vocab.KItems], ft.Kinds[vocab.KNLV], clipStr(vocab.Dump(x), 300))
		})
		return
	}
	r := ev.Open(t, "C12")
	defer r.Close(t)
	r.Rule("sequential: random vocabulary values (every item list re-allocated with spare capacity holding sentinels) x 15 read-only operation groups (both JSON encoders, three gob/binary encoders, ItemsEqual, fmt, " +
		"IsNil/NotEmpty/type predicates, DerefItem, On*/To* with reading callbacks, list Contains/IRIs/Count, ItemOrderTimestamp, CollectionPath, natural-language getters): a deep snapshot incl. slice capacities is " +
		"bit-identical after every operation and a second run returns the same result. concurrent: 8 goroutines run the battery on one shared value while 4 decode unrelated JSON/gob inputs, in a child process of " +
		"a -race build with halt_on_error: any DATA RACE report, any result differing from the sequential one, any change of the shared value is a violation. " +
		"non-trivial = value has a list-typed and a text property; distinct by canonical dump")
	r.Assume("schedules are not enumerated: the race detector flags unsynchronised conflicting accesses on the executions it sees")
	r.Note("race_build", true)

	r.Rapid(t, "sequential", r.Pick(300, 1500), func(t *rapid.T) {
		x := c12Gen.Draw(t, "x")
		dump := vocab.Dump(x)
		ds, _ := c12Sequential(x)
		ft := vocab.FeaturesOf(x)
		r.Case(dump, ft.Kinds[vocab.KItems] && ft.Kinds[vocab.KNLV], append(ft.Labels("sequential"), "sequential")...)
		r.Sample(dump, map[string]interface{}{"layer": "sequential", "value": dump})
		failUnknown(r, t, "sequential", ds, map[string]interface{}{"value": dump})
	})

	if r.WantLayer("concurrent", false) && !r.Replaying() {
		os.Setenv("GORACE", "halt_on_error=1 exitcode=66")
		results := runInChildren(t, "concurrent", nConc, 45*time.Minute)
		for i, res := range results {
			cell := fmt.Sprintf("concurrent #%d (seed %d, shard %d)", i, seed, shard)
			nt := strings.Contains(res.Info, "lists=true text=true")
			r.Case(res.Info, nt, "concurrent", "concurrent "+strings.Split(res.Info+" ", " ")[0])
			if i%17 == 0 {
				r.Sample(cell, map[string]interface{}{"layer": "concurrent", "value": res.Info})
			}
			if res.Fatal != "" {
				what := "fatal"
				if strings.Contains(res.Fatal, "DATA RACE") || strings.Contains(res.Fatal, "race") {
					what = "data-race"
				}
				where := ""
				if i := strings.Index(res.Fatal, " in "); i >= 0 {
					where = strings.SplitN(res.Fatal[i+4:], " ", 2)[0]
				}
				r.Report("concurrent", cell, "race "+what+" "+where, res.Fatal+" | value: "+res.Info, map[string]interface{}{"cell": i, "seed": seed, "shard": shard, "value": res.Info})
				continue
			}
			for _, d := range res.Diffs {
				r.Report("concurrent", cell, d.Key, d.Detail+" | value: "+res.Info, map[string]interface{}{"cell": i, "seed": seed, "value": res.Info})
			}
		}
		r.Cells(nConc, nConc)
	}
}
