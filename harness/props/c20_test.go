package props

import (
	"encoding/json"
	"fmt"
	"reflect"
	"strings"
	"testing"
	"time"

	ap "github.com/go-ap/activitypub"
	"verif/harness/ev"
	"verif/harness/vocab"
)

// C20 — Nil and typed-nil items are handled as 'nothing', never as a crash.

type c20Nil struct {
	name string
	it   ap.Item
}

var c20Nils = func() []c20Nil {
	out := []c20Nil{{"nil", nil}}
	for _, st := range vocab.StructTypes {
		out = append(out, c20Nil{"(*" + st.Name() + ")(nil)", reflect.Zero(reflect.PointerTo(st)).Interface().(ap.Item)})
	}
	return out
}()

// a helper under test: it receives the nil-like item (or a container holding it) and returns a complaint ("" = fine).
type c20Helper struct {
	name string
	// positions in which the helper is exercised: top (the nil itself), list (member of a valid list), prop (property of a valid object)
	positions []string
	run       func(it ap.Item) string
}

func c20Real() *ap.Object {
	return &ap.Object{ID: "https://example.com/real", Type: ap.NoteType, Name: ap.DefaultNaturalLanguageValue("real")}
}

// cb builds a callback that complains when it is handed a non-nil pointer for a nil item.
func c20NilPtr[T any](complaint *string) func(*T) error {
	return func(p *T) error {
		if p != nil {
			*complaint = fmt.Sprintf("the callback received a non-nil %T for a nil item", p)
		}
		return nil
	}
}

func c20On[T any](name string, on func(ap.Item, func(*T) error) error) c20Helper {
	return c20Helper{name, []string{"top"}, func(it ap.Item) string {
		complaint := ""
		_ = on(it, c20NilPtr[T](&complaint))
		return complaint
	}}
}

// c20OnList: the same helper on a list that holds the nil item next to real members: the callback may be handed nil or a
// real member, it must not crash getting there.
func c20OnList[T any](name string, on func(ap.Item, func(*T) error) error) c20Helper {
	return c20Helper{name + "(list)", []string{"list"}, func(it ap.Item) string {
		_ = on(it, func(p *T) error { _ = p == nil; return nil })
		return ""
	}}
}

func c20To[T any](name string, to func(ap.Item) (*T, error)) c20Helper {
	return c20Helper{name, []string{"top"}, func(it ap.Item) string {
		p, err := to(it)
		if err == nil && p != nil {
			return fmt.Sprintf("returned a non-nil %T without error for a nil item", p)
		}
		return ""
	}}
}

var c20Helpers = []c20Helper{
	{"IsNil", []string{"top"}, func(it ap.Item) string {
		if !ap.IsNil(it) {
			return "IsNil is false"
		}
		return ""
	}},
	{"NotEmpty", []string{"top"}, func(it ap.Item) string {
		if ap.NotEmpty(it) {
			return "NotEmpty is true"
		}
		return ""
	}},
	{"NotEmpty/IsNil(holder)", []string{"list", "prop"}, func(it ap.Item) string {
		// the emptiness tests walk what they are given: a nil inside a list or a property is nothing to trip over
		_ = ap.NotEmpty(it)
		_ = ap.IsNil(it)
		return ""
	}},
	{"ItemsEqual(x,nil)", []string{"top"}, func(it ap.Item) string {
		if !ap.ItemsEqual(it, nil) || !ap.ItemsEqual(nil, it) {
			return "not equal to nil"
		}
		return ""
	}},
	{"ItemsEqual(x,object)", []string{"top", "list", "prop"}, func(it ap.Item) string {
		if ap.ItemsEqual(it, c20Real()) || ap.ItemsEqual(c20Real(), it) {
			return "equal to a real object"
		}
		return ""
	}},
	{"ItemsEqual(x,x)", []string{"list", "prop"}, func(it ap.Item) string { _ = ap.ItemsEqual(it, it); return "" }},
	// a list that holds the nil-like item against lists of the other kinds (an IRI list, a list behind a pointer, each of the same
	// length, shorter and longer), bare and as the value of an item property, in both orders: a comparison, nothing more
	{"ItemsEqual(list,other lists)", []string{"top"}, func(it ap.Item) string {
		a, b := ap.IRI("https://example.com/members/a"), ap.IRI("https://example.com/members/b")
		for _, l := range []ap.ItemCollection{{it}, {it, a}, {a, it}, {a, it, b}, {it, it}} {
			for n := 0; n <= len(l)+1; n++ {
				iris := ap.IRIs{}
				for k := 0; k < n; k++ {
					iris = append(iris, ap.IRI(fmt.Sprintf("https://example.com/members/%c", 'a'+k)))
				}
				items, _ := ap.ToItemCollection(iris)
				lp := l
				for _, other := range []ap.Item{iris, &iris, *items, items} {
					for _, mine := range []ap.Item{l, &lp} {
						_ = ap.ItemsEqual(mine, other)
						_ = ap.ItemsEqual(other, mine)
						x := &ap.Object{ID: "https://example.com/holder", Type: ap.NoteType, Attachment: mine, Tag: l}
						y := &ap.Object{ID: "https://example.com/holder", Type: ap.NoteType, Attachment: other, Tag: *items}
						_ = ap.ItemsEqual(x, y)
						_ = ap.ItemsEqual(y, x)
						_ = l.Contains(other)
						_ = ap.ItemCollection{other}.Contains(mine)
					}
				}
			}
		}
		return ""
	}},
	// equality treats the nil-like item as nil in either operand: the holder equals its twin that holds the untyped nil in the same
	// places (both orders), and comparing it with a twin that holds real values there is just a comparison, in both orders
	{"ItemsEqual(x,twins)", []string{"prop"}, func(it ap.Item) string {
		twin := func(with ap.Item) ap.Item {
			y := vocab.CloneItem(it)
			sv, ok := vocab.StructOf(y)
			src, _ := vocab.StructOf(it)
			if !ok {
				return nil
			}
			nilLike := func(v ap.Item) bool {
				if v == nil {
					return true
				}
				rv := reflect.ValueOf(v)
				return rv.Kind() == reflect.Ptr && rv.IsNil()
			}
			for _, f := range vocab.Fields(sv.Type()) {
				switch f.Kind {
				case vocab.KItem:
					orig := src.Field(f.Index)
					if !orig.IsNil() && nilLike(orig.Interface().(ap.Item)) || orig.IsNil() && with != nil && false {
						w := with
						sv.Field(f.Index).Set(reflect.Zero(sv.Field(f.Index).Type()))
						if w != nil {
							sv.Field(f.Index).Set(reflect.ValueOf(&w).Elem())
						}
					}
				case vocab.KItems:
					l := src.Field(f.Index).Interface().(ap.ItemCollection)
					nl := make(ap.ItemCollection, len(l))
					for i, m := range l {
						nl[i] = m
						if nilLike(m) {
							nl[i] = with
						}
					}
					if l != nil {
						sv.Field(f.Index).Set(reflect.ValueOf(nl))
					}
				}
			}
			return y
		}
		withNil, withReal := twin(nil), twin(ap.IRI("https://example.com/a-real-value"))
		if withNil == nil {
			return ""
		}
		if !ap.ItemsEqual(it, withNil) || !ap.ItemsEqual(withNil, it) {
			return "the holder is not equal to its twin that holds the untyped nil in the same places"
		}
		_ = ap.ItemsEqual(it, withReal)
		_ = ap.ItemsEqual(withReal, it)
		return ""
	}},
	c20On("OnObject", func(it ap.Item, f func(*ap.Object) error) error { return ap.OnObject(it, f) }),
	c20On("OnActor", func(it ap.Item, f func(*ap.Actor) error) error { return ap.OnActor(it, f) }),
	c20On("OnActivity", func(it ap.Item, f func(*ap.Activity) error) error { return ap.OnActivity(it, f) }),
	c20On("OnIntransitiveActivity", func(it ap.Item, f func(*ap.IntransitiveActivity) error) error {
		return ap.OnIntransitiveActivity(it, f)
	}),
	c20On("OnQuestion", func(it ap.Item, f func(*ap.Question) error) error { return ap.OnQuestion(it, f) }),
	c20On("OnCollection", func(it ap.Item, f func(*ap.Collection) error) error { return ap.OnCollection(it, f) }),
	c20On("OnCollectionPage", func(it ap.Item, f func(*ap.CollectionPage) error) error { return ap.OnCollectionPage(it, f) }),
	c20On("OnOrderedCollection", func(it ap.Item, f func(*ap.OrderedCollection) error) error { return ap.OnOrderedCollection(it, f) }),
	c20On("OnOrderedCollectionPage", func(it ap.Item, f func(*ap.OrderedCollectionPage) error) error {
		return ap.OnOrderedCollectionPage(it, f)
	}),
	c20On("OnPlace", func(it ap.Item, f func(*ap.Place) error) error { return ap.OnPlace(it, f) }),
	c20On("OnProfile", func(it ap.Item, f func(*ap.Profile) error) error { return ap.OnProfile(it, f) }),
	c20On("OnRelationship", func(it ap.Item, f func(*ap.Relationship) error) error { return ap.OnRelationship(it, f) }),
	c20On("OnTombstone", func(it ap.Item, f func(*ap.Tombstone) error) error { return ap.OnTombstone(it, f) }),
	c20On("OnLink", func(it ap.Item, f func(*ap.Link) error) error { return ap.OnLink(it, f) }),
	c20On("OnItemCollection", func(it ap.Item, f func(*ap.ItemCollection) error) error { return ap.OnItemCollection(it, f) }),
	c20On("OnIRIs", func(it ap.Item, f func(*ap.IRIs) error) error { return ap.OnIRIs(it, f) }),
	c20OnList("OnObject", func(it ap.Item, f func(*ap.Object) error) error { return ap.OnObject(it, f) }),
	c20OnList("OnActor", func(it ap.Item, f func(*ap.Actor) error) error { return ap.OnActor(it, f) }),
	c20OnList("OnActivity", func(it ap.Item, f func(*ap.Activity) error) error { return ap.OnActivity(it, f) }),
	c20OnList("OnIntransitiveActivity", func(it ap.Item, f func(*ap.IntransitiveActivity) error) error {
		return ap.OnIntransitiveActivity(it, f)
	}),
	c20OnList("OnQuestion", func(it ap.Item, f func(*ap.Question) error) error { return ap.OnQuestion(it, f) }),
	c20OnList("OnCollection", func(it ap.Item, f func(*ap.Collection) error) error { return ap.OnCollection(it, f) }),
	c20OnList("OnCollectionPage", func(it ap.Item, f func(*ap.CollectionPage) error) error { return ap.OnCollectionPage(it, f) }),
	c20OnList("OnOrderedCollection", func(it ap.Item, f func(*ap.OrderedCollection) error) error { return ap.OnOrderedCollection(it, f) }),
	c20OnList("OnOrderedCollectionPage", func(it ap.Item, f func(*ap.OrderedCollectionPage) error) error {
		return ap.OnOrderedCollectionPage(it, f)
	}),
	c20OnList("OnPlace", func(it ap.Item, f func(*ap.Place) error) error { return ap.OnPlace(it, f) }),
	c20OnList("OnProfile", func(it ap.Item, f func(*ap.Profile) error) error { return ap.OnProfile(it, f) }),
	c20OnList("OnRelationship", func(it ap.Item, f func(*ap.Relationship) error) error { return ap.OnRelationship(it, f) }),
	c20OnList("OnTombstone", func(it ap.Item, f func(*ap.Tombstone) error) error { return ap.OnTombstone(it, f) }),
	c20OnList("OnLink", func(it ap.Item, f func(*ap.Link) error) error { return ap.OnLink(it, f) }),
	c20OnList("OnItemCollection", func(it ap.Item, f func(*ap.ItemCollection) error) error { return ap.OnItemCollection(it, f) }),
	c20OnList("OnIRIs", func(it ap.Item, f func(*ap.IRIs) error) error { return ap.OnIRIs(it, f) }),
	c20OnList("On[Object]", func(it ap.Item, f func(*ap.Object) error) error { return ap.On[ap.Object](it, f) }),
	c20OnList("On[*Object]", func(it ap.Item, f func(**ap.Object) error) error { return ap.On[*ap.Object](it, f) }),
	{"To[T]/On[T]", []string{"top"}, func(it ap.Item) string {
		_, _ = ap.To[ap.Object](it)
		_, _ = ap.To[*ap.Object](it)
		_, _ = ap.To[ap.IRI](it)
		_ = ap.On[ap.Object](it, func(*ap.Object) error { return nil })
		_ = ap.On[*ap.Actor](it, func(**ap.Actor) error { return nil })
		return ""
	}},
	{"list-methods", []string{"list", "list1"}, func(it ap.Item) string {
		// the read-only methods of the list type itself, on a list that holds the nil item
		l, ok := it.(ap.ItemCollection)
		if !ok {
			return ""
		}
		_ = l.Count()
		_ = l.First()
		_ = l.Normalize()
		_ = l.Collection()
		_ = l.GetLink()
		_ = l.ItemsMatch(ap.IRI("https://example.com/first"))
		_ = l.Contains(ap.IRI("https://example.com/first"))
		_ = l.Equals(l)
		return ""
	}},
	{"OnCollectionIntf(list)", []string{"list"}, func(it ap.Item) string {
		_ = ap.OnCollectionIntf(it, func(c ap.CollectionInterface) error {
			if c != nil {
				_ = c.Count()
				_ = c.Collection()
				_ = c.Contains(ap.IRI("https://example.com/first"))
			}
			return nil
		})
		return ""
	}},
	{"OnCollectionIntf", []string{"top"}, func(it ap.Item) string {
		complaint := ""
		_ = ap.OnCollectionIntf(it, func(c ap.CollectionInterface) error {
			if c != nil && !reflect.ValueOf(c).IsNil() {
				complaint = fmt.Sprintf("the callback received a non-nil %T for a nil item", c)
			}
			return nil
		})
		return complaint
	}},
	{"OnItem", []string{"top", "list"}, func(it ap.Item) string {
		_ = ap.OnItem(it, func(x ap.Item) error { _ = ap.IsNil(x); return nil })
		return ""
	}},
	c20To("ToObject", ap.ToObject), c20To("ToActor", ap.ToActor), c20To("ToActivity", ap.ToActivity), c20To("ToIntransitiveActivity", ap.ToIntransitiveActivity),
	c20To("ToQuestion", ap.ToQuestion), c20To("ToCollection", ap.ToCollection), c20To("ToCollectionPage", ap.ToCollectionPage), c20To("ToOrderedCollection", ap.ToOrderedCollection),
	c20To("ToOrderedCollectionPage", ap.ToOrderedCollectionPage), c20To("ToPlace", ap.ToPlace), c20To("ToProfile", ap.ToProfile), c20To("ToRelationship", ap.ToRelationship),
	c20To("ToTombstone", ap.ToTombstone), c20To("ToLink", func(it ap.Item) (*ap.Link, error) { return ap.ToLink(it) }),
	c20To("ToItemCollection", ap.ToItemCollection), c20To("ToIRIs", ap.ToIRIs),
	{"Flatten", []string{"top", "list", "prop"}, func(it ap.Item) string { _ = ap.Flatten(it); return "" }},
	{"FlattenProperties", []string{"top", "prop"}, func(it ap.Item) string { _ = ap.FlattenProperties(it); return "" }},
	{"FlattenToIRI", []string{"top", "list", "prop"}, func(it ap.Item) string { _ = ap.FlattenToIRI(it); return "" }},
	{"FlattenItemCollection", []string{"list"}, func(it ap.Item) string {
		if l, ok := it.(ap.ItemCollection); ok {
			_ = ap.FlattenItemCollection(l)
		}
		return ""
	}},
	{"typed-flatten-helpers", []string{"top"}, func(it ap.Item) string {
		switch p := it.(type) {
		case *ap.Activity:
			_ = ap.FlattenActivityProperties(p)
		case *ap.IntransitiveActivity:
			_ = ap.FlattenIntransitiveActivityProperties(p)
		case *ap.Object:
			_ = ap.FlattenObjectProperties(p)
		case *ap.Actor:
			_ = ap.FlattenActorProperties(p)
		case *ap.Collection:
			_ = ap.FlattenCollection(p)
		case *ap.OrderedCollection:
			_ = ap.FlattenOrderedCollection(p)
		case nil:
			_ = ap.FlattenActivityProperties(nil)
			_ = ap.FlattenObjectProperties(nil)
			_ = ap.FlattenItemCollection(nil)
		}
		return ""
	}},
	{"CleanRecipients", []string{"top", "list", "prop"}, func(it ap.Item) string { _ = ap.CleanRecipients(it); return "" }},
	{"Clean", []string{"prop"}, func(it ap.Item) string {
		if c, ok := it.(interface{ Clean() }); ok {
			c.Clean()
		}
		return ""
	}},
	{"Recipients", []string{"prop"}, func(it ap.Item) string {
		if c, ok := it.(interface{ Recipients() ap.ItemCollection }); ok {
			_ = c.Recipients()
		}
		return ""
	}},
	{"DerefItem", []string{"top", "list"}, func(it ap.Item) string {
		if l := ap.DerefItem(it); len(l) > 0 && ap.IsNil(it) {
			return fmt.Sprintf("DerefItem of a nil item has %d members", len(l))
		}
		return ""
	}},
	{"ItemOrderTimestamp", []string{"top"}, func(it ap.Item) string {
		_ = ap.ItemOrderTimestamp(it, c20Real())
		_ = ap.ItemOrderTimestamp(c20Real(), it)
		_ = ap.ItemOrderTimestamp(it, it)
		return ""
	}},
	{"ItemCollection.Contains/Append/Remove", []string{"top"}, func(it ap.Item) string {
		// lists that already hold nil entries (several, one of them last): Remove of a nil item walks over all of them
		for _, pre := range []ap.ItemCollection{
			{(*ap.Object)(nil), c20Real(), (*ap.Link)(nil)},
			{c20Real(), nil, ap.IRI("https://example.com/y"), (*ap.Actor)(nil)},
			{nil, nil},
			{it, c20Real(), it},
		} {
			pl := append(ap.ItemCollection{}, pre...)
			_ = pl.Contains(it)
			pl.Remove(it)
			_ = pl.Append(it)
			pl.Remove(it)
		}
		l := ap.ItemCollection{c20Real(), ap.IRI("https://example.com/x")}
		_ = l.Contains(it)
		_ = l.Append(it)
		l.Remove(it)
		if l.Count() > 3 {
			return "count grew unexpectedly"
		}
		return ""
	}},
	{"Collection.Append/Contains", []string{"top"}, func(it ap.Item) string {
		for _, c := range []ap.CollectionInterface{&ap.Collection{ID: "https://example.com/c", Type: ap.CollectionType}, &ap.OrderedCollection{ID: "https://example.com/oc", Type: ap.OrderedCollectionType},
			&ap.CollectionPage{ID: "https://example.com/cp", Type: ap.CollectionPageType}, &ap.OrderedCollectionPage{ID: "https://example.com/ocp", Type: ap.OrderedCollectionPageType}} {
			_ = c.Append(c20Real())
			_ = c.Contains(it)
			_ = c.Append(it)
			_ = c.Contains(it)
		}
		return ""
	}},
	{"IRIs.Contains", []string{"top"}, func(it ap.Item) string {
		l := ap.IRIs{"https://example.com/x"}
		_ = l.Contains(it)
		return ""
	}},
	{"IRIs.Append", []string{"top"}, func(it ap.Item) string {
		l := ap.IRIs{"https://example.com/x"}
		_ = l.Append(it)
		return ""
	}},
	{"MarshalJSON", []string{"top", "list", "prop"}, func(it ap.Item) string {
		// neutral result: nothing, or a document - one that parses and that the library's own reader accepts
		b, err := ap.MarshalJSON(it)
		if err != nil || len(b) == 0 {
			return ""
		}
		if !json.Valid(b) {
			return fmt.Sprintf("what was written is not JSON: %q", b)
		}
		if _, derr := ap.UnmarshalJSON(b); derr != nil {
			return fmt.Sprintf("what was written is refused by the reader (%v): %q", derr, b)
		}
		return ""
	}},
	// the same for list properties: a list that holds the nil-like item among real members (in front, behind, between, on both
	// sides, alone) is written as the list of the real members
	{"encoders(one list property)", []string{"top"}, func(it ap.Item) string {
		a, b := ap.IRI("https://example.com/members/a"), ap.IRI("https://example.com/members/b")
		for _, st := range vocab.StructTypes {
			mk := func(f vocab.Field, l ap.ItemCollection) ap.Item {
				p := reflect.New(st)
				p.Elem().FieldByName("ID").SetString("https://example.com/sparse")
				p.Elem().FieldByName("Type").SetString(string(vocab.DefaultType[st.Name()]))
				if l != nil {
					p.Elem().Field(f.Index).Set(reflect.ValueOf(l))
				}
				return p.Interface().(ap.Item)
			}
			for _, f := range vocab.Fields(st) {
				if f.Kind != vocab.KItems {
					continue
				}
				for _, c := range []struct {
					name        string
					with, clean ap.ItemCollection
				}{
					{"[nil]", ap.ItemCollection{it}, nil},
					{"[nil a]", ap.ItemCollection{it, a}, ap.ItemCollection{a}},
					{"[a nil]", ap.ItemCollection{a, it}, ap.ItemCollection{a}},
					{"[nil a b]", ap.ItemCollection{it, a, b}, ap.ItemCollection{a, b}},
					{"[a nil b]", ap.ItemCollection{a, it, b}, ap.ItemCollection{a, b}},
					{"[nil a nil b nil]", ap.ItemCollection{it, a, it, b, it}, ap.ItemCollection{a, b}},
					{"[nil nil a]", ap.ItemCollection{it, it, a}, ap.ItemCollection{a}},
				} {
					x, base := mk(f, c.with), mk(f, c.clean)
					// (a list of one may be written as an array or as the bare member: what counts is what the document says)
					xj, err := ap.MarshalJSON(x)
					if err != nil || !json.Valid(xj) {
						return fmt.Sprintf("%s with %s = %s is written as %q (err=%v)", st.Name(), f.Name, c.name, xj, err)
					}
					if xb, derr := ap.UnmarshalJSON(xj); derr != nil {
						return fmt.Sprintf("%s with %s = %s is written as %q, which the reader refuses: %v", st.Name(), f.Name, c.name, xj, derr)
					} else if d := vocab.DiffTop(base, xb, vocab.JSONForm); len(d) > 0 {
						return fmt.Sprintf("%s with %s = %s is written as %q, which does not say what the value with the real members only says: %v", st.Name(), f.Name, c.name, xj, d[0])
					}
					xg, err := ap.GobEncode(x)
					if err != nil {
						return fmt.Sprintf("%s with %s = %s: gob encoding fails with %v", st.Name(), f.Name, c.name, err)
					}
					back, derr := ap.GobDecode(xg)
					if derr != nil {
						return fmt.Sprintf("%s with %s = %s: what the gob encoder wrote does not decode: %v", st.Name(), f.Name, c.name, derr)
					}
					// the binary form may keep the place of a member that is nothing; the real members are all there, in their order
					if sv, ok := vocab.StructOf(back); ok && sv.Type() == st {
						if l, isList := sv.Field(f.Index).Interface().(ap.ItemCollection); isList {
							var real ap.ItemCollection
							for _, m := range l {
								if !vocab.IsEmptyItem(m) {
									real = append(real, m)
								}
							}
							sv.Field(f.Index).Set(reflect.ValueOf(real))
						}
					}
					if d := vocab.DiffTop(base, back, vocab.GobForm); len(d) > 0 {
						return fmt.Sprintf("%s with %s = %s: stored and read back, its real members differ from the value with the real members only: %v", st.Name(), f.Name, c.name, d[0])
					}
				}
			}
		}
		return ""
	}},
	// nothing is nothing: a value that holds the nil-like item in one property (and nothing else besides id and type) is written,
	// by both encoders, exactly as the value that does not have that property - one property at a time, every item property of every type
	{"encoders(one property)", []string{"top"}, func(it ap.Item) string {
		for _, st := range vocab.StructTypes {
			mk := func() reflect.Value {
				p := reflect.New(st)
				p.Elem().FieldByName("ID").SetString("https://example.com/sparse")
				p.Elem().FieldByName("Type").SetString(string(vocab.DefaultType[st.Name()]))
				return p
			}
			base := mk().Interface().(ap.Item)
			bj, _ := ap.MarshalJSON(base)
			for _, f := range vocab.Fields(st) {
				if f.Kind != vocab.KItem {
					continue
				}
				p := mk()
				item := it
				p.Elem().Field(f.Index).Set(reflect.ValueOf(&item).Elem())
				x := p.Interface().(ap.Item)
				if xj, err := ap.MarshalJSON(x); err != nil || string(xj) != string(bj) {
					return fmt.Sprintf("%s with a nil %s is written as %q (err=%v), without it as %q", st.Name(), f.Name, xj, err, bj)
				}
				// the binary form has no fixed member order: what it says is what it decodes to
				xg, err := ap.GobEncode(x)
				if err != nil {
					return fmt.Sprintf("%s with a nil %s: gob encoding fails with %v", st.Name(), f.Name, err)
				}
				back, derr := ap.GobDecode(xg)
				if derr != nil {
					return fmt.Sprintf("%s with a nil %s: what the gob encoder wrote does not decode: %v", st.Name(), f.Name, derr)
				}
				if d := vocab.DiffTop(base, back, vocab.GobForm); len(d) > 0 {
					return fmt.Sprintf("%s with a nil %s: stored and read back it differs from the value without the property: %v", st.Name(), f.Name, d[0])
				}
			}
		}
		return ""
	}},
	{"GobEncode", []string{"top", "list", "prop"}, func(it ap.Item) string { _, _ = ap.GobEncode(it); return "" }},
	{"CollectionPath.IRI/Of/AddTo", []string{"top", "list", "list1", "collection-prop"}, func(it ap.Item) string {
		for _, c := range []ap.CollectionPath{ap.Inbox, ap.Outbox, ap.Liked, ap.Following, ap.Followers, ap.Likes, ap.Shares, ap.Replies} {
			_ = c.IRI(it)
			_ = c.Of(it)
			_, _ = c.AddTo(it)
		}
		return ""
	}},
	{"fmt", []string{"list", "prop"}, func(it ap.Item) string { _ = fmt.Sprintf("%s %v", it, it); return "" }},
}

// c20Place wraps the nil-like item for a position.
func c20Place(n c20Nil, pos string) ap.Item {
	switch pos {
	case "list":
		return ap.ItemCollection{ap.IRI("https://example.com/first"), n.it, c20Real()}
	case "collection-prop":
		// the nil-like item as every collection property of an otherwise valid actor
		return &ap.Actor{ID: "https://example.com/actors/jdoe", Type: ap.PersonType, Inbox: n.it, Outbox: n.it, Liked: n.it, Following: n.it, Followers: n.it, Likes: n.it, Shares: n.it, Replies: n.it}
	case "list1":
		return ap.ItemCollection{n.it}
	case "list-ptr":
		// the same list handed over through a pointer (what ToItemCollection and the On* helpers themselves hand out)
		l := ap.ItemCollection{ap.IRI("https://example.com/first"), n.it, c20Real()}
		return &l
	case "list-first":
		return ap.ItemCollection{n.it, c20Real(), ap.IRI("https://example.com/last")}
	case "list-after-object":
		// behind an embedded object and behind a link: helpers that walk a list through a typed view stop at the first member they cannot
		// view (an IRI in front hides what comes after it)
		return ap.ItemCollection{c20Real(), n.it}
	case "list-after-link":
		return ap.ItemCollection{&ap.Link{Type: ap.MentionType, Href: "https://example.com/mentioned"}, n.it, c20Real()}
	case "prop-list1":
		// a one-member list as the value of item-typed and list-typed properties (one-member lists are written compacted)
		return &ap.Activity{ID: "https://example.com/act", Type: ap.CreateType, Object: ap.ItemCollection{n.it}, AttributedTo: ap.ItemCollection{n.it}, Audience: ap.ItemCollection{n.it},
			Replies: ap.ItemCollection{n.it}, To: ap.ItemCollection{n.it}}
	}
	if strings.HasPrefix(pos, "all-props:") {
		// the nil-like item as the value of every item-typed property, and as a member of every list-typed property, of one struct type
		st := vocab.StructType(strings.TrimPrefix(pos, "all-props:"))
		p := reflect.New(st)
		p.Elem().FieldByName("ID").SetString("https://example.com/all-props")
		p.Elem().FieldByName("Type").SetString(string(vocab.DefaultType[st.Name()]))
		for _, f := range vocab.Fields(st) {
			switch f.Kind {
			case vocab.KItem:
				var it ap.Item = n.it
				p.Elem().Field(f.Index).Set(reflect.ValueOf(&it).Elem())
			case vocab.KItems:
				p.Elem().Field(f.Index).Set(reflect.ValueOf(ap.ItemCollection{ap.IRI("https://example.com/member"), n.it}))
			case vocab.KEndpoints:
				// the item-typed properties of the nested endpoints value count as well
				e := &ap.Endpoints{}
				ev := reflect.ValueOf(e).Elem()
				for i := 0; i < ev.NumField(); i++ {
					var it ap.Item = n.it
					ev.Field(i).Set(reflect.ValueOf(&it).Elem())
				}
				p.Elem().Field(f.Index).Set(reflect.ValueOf(e))
			}
		}
		return p.Interface().(ap.Item)
	}
	switch pos {
	case "prop":
		var it ap.Item = n.it
		return &ap.Activity{ID: "https://example.com/act", Type: ap.CreateType, Actor: ap.IRI("https://example.com/actor"), Object: it, Target: it,
			AttributedTo: it, Tag: ap.ItemCollection{it}, To: ap.ItemCollection{ap.IRI("https://example.com/to"), it}, Bto: ap.ItemCollection{it}, Replies: it, Icon: it}
	}
	return n.it
}

type c20Cell struct {
	h   c20Helper
	n   c20Nil
	pos string
}

func (c c20Cell) String() string { return fmt.Sprintf("%s %s %s", c.h.name, c.n.name, c.pos) }

func c20Cells() []c20Cell {
	var out []c20Cell
	for _, h := range c20Helpers {
		positions := append([]string{}, h.positions...)
		for _, p := range h.positions {
			if p == "list" {
				positions = append(positions, "list1", "list-after-object", "list-after-link", "list-ptr", "list-first")
			}
			if p == "prop" {
				positions = append(positions, "prop-list1")
				for _, st := range vocab.StructTypes {
					positions = append(positions, "all-props:"+st.Name())
				}
			}
		}
		for _, n := range c20Nils {
			for _, pos := range positions {
				out = append(out, c20Cell{h, n, pos})
			}
		}
	}
	return out
}

func c20Run(c c20Cell) ([]keyed, string) {
	key := "nil " + c.String()
	arg := c20Place(c.n, c.pos)
	complaint := ""
	pi, ok := ev.Timed(10*time.Second, func() { complaint = c.h.run(arg) })
	switch {
	case !ok:
		return []keyed{{key + " hang", "the helper did not return within 10s"}}, "hang"
	case pi != nil:
		return []keyed{{key + " panic@" + pi.Frame, pi.Value}}, "panic"
	case complaint != "":
		return []keyed{{key + " wrong-result", complaint}}, "wrong"
	}
	return nil, "ok"
}

func TestC20(t *testing.T) {
	cells := c20Cells()
	if childLayer() == "cells" {
		runChild(len(cells), func(i int) ([]keyed, string) { return c20Run(cells[i]) })
		return
	}
	r := ev.Open(t, "C20")
	defer r.Close(t)
	r.Rule("exhaustive: {untyped nil, nil pointer to each of the 14 struct types} x every exported helper taking an Item (IsNil, NotEmpty, ItemsEqual, 20 On*, 16 To*, the flatten family, CleanRecipients/Clean/Recipients, " +
		"DerefItem, ItemOrderTimestamp, collection Contains/Append/Remove, IRIs.Contains/Append, MarshalJSON, GobEncode, CollectionPath.IRI/Of/AddTo, fmt) x position {top level, member of an otherwise valid list, sole member of a list, " +
		"property of an otherwise valid activity, sole member of a list held by a property}; each cell runs in a child process so that a fatal nil dereference is attributed to it. Oracle: IsNil true, NotEmpty false, equal to nil and unequal to a real " +
		"object, no panic, returns within 10 s, a callback - if invoked - receives a nil pointer. non-trivial = cell with a typed nil; distinct by cell")
	r.Note("only_enumerated_layers", true)

	results := runInChildren(t, "cells", len(cells), 10*time.Minute)
	done := 0
	for i, c := range cells {
		cell := c.String()
		if !r.WantCell(cell) {
			continue
		}
		done++
		res := results[i]
		r.Case(cell, c.n.it != nil, "cells position="+c.pos, "cells outcome="+res.Info)
		if i%83 == 0 {
			r.Sample(cell, map[string]interface{}{"helper": c.h.name, "nil": c.n.name, "position": c.pos, "outcome": res.Info})
		}
		if res.Fatal != "" {
			what := "fatal"
			if strings.HasPrefix(res.Fatal, "hang") {
				what = "hang"
			}
			r.Report("cells", cell, "nil "+cell+" "+what, res.Fatal, cell)
			continue
		}
		for _, d := range res.Diffs {
			r.Report("cells", cell, d.Key, d.Detail, cell)
		}
	}
	r.Cells(len(cells), done)
	r.Exhaustive("cells", !r.Replaying())
}
