package props

import (
	"fmt"
	"reflect"
	"strings"
	"testing"

	ap "github.com/go-ap/activitypub"
	"pgregory.net/rapid"
	"verif/harness/ev"
	"verif/harness/oracle"
	"verif/harness/vocab"
)

// C10 — Recipient computation de-duplicates without losing or inventing addressees.

var c10Types = []string{"Object", "Actor", "Activity", "IntransitiveActivity", "Question", "Collection", "CollectionPage", "OrderedCollection",
	"OrderedCollectionPage", "Place", "Profile", "Relationship", "Tombstone"}

// an entry of an addressing list, described independently of the library
type c10Entry struct {
	Who  int    // addressee index, -1 = nil entry
	Form string // iri | actor | object | variant | nil
}

func (e c10Entry) String() string {
	if e.Who < 0 {
		return "nil"
	}
	return fmt.Sprintf("%s#%d", e.Form, e.Who)
}

var c10Base = []string{"https://example.com/actors/alice", "https://social.example.org/users/bob", "https://example.com/actors/carol", "https://fedi.test/~dan",
	string(ap.PublicNS)}

// c10NilLike: the nil item and a nil pointer of a vocabulary type - nobody, either way.
func c10NilLike(it ap.Item) bool {
	if it == nil {
		return true
	}
	v := reflect.ValueOf(it)
	return v.Kind() == reflect.Ptr && v.IsNil()
}

func c10Item(e c10Entry, variant int) ap.Item {
	if e.Who < 0 {
		return nil
	}
	id := fmt.Sprintf("https://example.com/crowd/%d", e.Who)
	if e.Who < len(c10Base) {
		id = c10Base[e.Who]
	}
	switch e.Form {
	case "iri":
		return ap.IRI(id)
	case "actor":
		return &ap.Actor{ID: ap.IRI(id), Type: ap.PersonType, PreferredUsername: ap.DefaultNaturalLanguageValue("u")}
	case "object":
		return &ap.Object{ID: ap.IRI(id), Type: ap.GroupType}
	case "collection":
		// the addressee given as an embedded collection object with the addressee's id (a followers collection that was dereferenced)
		return &ap.OrderedCollection{ID: ap.IRI(id), Type: ap.OrderedCollectionType, TotalItems: 2, OrderedItems: ap.ItemCollection{ap.IRI("https://example.com/members/1")}}
	case "nilptr":
		return (*ap.Actor)(nil)
	case "idless":
		// an embedded actor that has no id: nobody that can be addressed, and nothing it could be a repeated mention of
		return &ap.Actor{Type: ap.PersonType, PreferredUsername: ap.DefaultNaturalLanguageValue(fmt.Sprintf("anonymous-%d", e.Who))}
	case "opaque":
		// an addressee named by a URI without an authority (acct:, urn:): a different string is a different addressee
		return ap.IRI(fmt.Sprintf("acct:user%d@example.com", e.Who))
	case "near":
		// another addressee whose id is as close as a different identity gets: the same host and path with a query
		if strings.Contains(id, "#") {
			return ap.IRI(id + "-other")
		}
		return ap.IRI(id + "?page=1")
	case "near-object":
		if strings.Contains(id, "#") {
			return ap.IRI(id + "-other")
		}
		return &ap.Object{ID: ap.IRI(id + "?page=1&page=2"), Type: ap.GroupType}
	case "variant":
		if strings.Contains(id, "#") {
			return ap.IRI(id)
		}
		switch variant % 3 {
		case 0:
			return ap.IRI(strings.Replace(id, "https://", "http://", 1))
		case 1:
			return ap.IRI(strings.Replace(strings.Replace(id, "example", "EXAMPLE", 1), "fedi", "Fedi", 1))
		default:
			return ap.IRI(id + "/")
		}
	}
	return nil
}

type c10Case struct {
	GoType   string
	VType    string
	Lists    map[string][]c10Entry // to, cc, bto, bcc, audience
	Actor    *c10Entry             // for intransitive activities and questions (and, ignored, activities)
	BlockObj *c10Entry             // Block activities: the blocked object
	Shared   [2]string             // when set: the second property holds the very slice of the first (a caller that built its recipients once)
}

var c10Order = []string{"To", "CC", "Bto", "BCC", "Audience"}

func (c c10Case) String() string {
	var sb strings.Builder
	fmt.Fprintf(&sb, "%s[%s]", c.GoType, c.VType)
	for _, n := range c10Order {
		if len(c.Lists[n]) > 0 {
			fmt.Fprintf(&sb, " %s=%v", n, c.Lists[n])
		}
	}
	if c.Actor != nil {
		fmt.Fprintf(&sb, " actor=%v", *c.Actor)
	}
	if c.BlockObj != nil {
		fmt.Fprintf(&sb, " object=%v", *c.BlockObj)
	}
	if c.Shared[0] != "" {
		fmt.Fprintf(&sb, " %s-is-the-slice-of-%s", c.Shared[1], c.Shared[0])
	}
	return sb.String()
}

func c10Key(it ap.Item) string {
	if c10NilLike(it) {
		return "nil"
	}
	l := it.GetLink()
	if it.IsObject() {
		l = it.GetID()
	}
	return oracle.IDKey(string(l))
}

// c10Run builds the value, calls Recipients() and compares with the reference scan.
func c10Run(c c10Case) (ds []keyed, dupPattern string) {
	p := reflect.New(vocab.StructType(c.GoType))
	v := p.Elem()
	v.FieldByName("ID").SetString("https://example.com/items/the-item")
	v.FieldByName("Type").SetString(c.VType)
	n := 0
	mk := func(es []c10Entry) ap.ItemCollection {
		if es == nil {
			return nil
		}
		l := make(ap.ItemCollection, 0, len(es))
		for _, e := range es {
			n++
			l = append(l, c10Item(e, n))
		}
		return l
	}
	orig := map[string]ap.ItemCollection{}
	for _, name := range c10Order {
		l := mk(c.Lists[name])
		if c.Shared[1] == name && c.Shared[0] != "" {
			l = v.FieldByName(c.Shared[0]).Interface().(ap.ItemCollection) // the same backing array, the same length
		}
		orig[name] = append(ap.ItemCollection(nil), l...)
		v.FieldByName(name).Set(reflect.ValueOf(l))
	}
	withActor := c.GoType == "IntransitiveActivity" || c.GoType == "Question"
	var actorIt ap.Item
	if c.Actor != nil {
		if f := v.FieldByName("Actor"); f.IsValid() {
			actorIt = c10Item(*c.Actor, 1)
			if actorIt != nil {
				f.Set(reflect.ValueOf(&actorIt).Elem())
			}
		}
	}
	blockedKey := ""
	if c.BlockObj != nil {
		// the activity's object; only a Block takes it out of the addressees
		b := c10Item(*c.BlockObj, 2)
		v.FieldByName("Object").Set(reflect.ValueOf(&b).Elem())
		if c.VType == "Block" {
			blockedKey = c10Key(b)
		}
	}

	// ---- reference scan, written from the statement
	seen := map[string]bool{}
	var wantRec []string
	wantLists := map[string][]string{} // keys of surviving entries
	dup := map[string]bool{}
	scan := func(name string, l ap.ItemCollection, keep bool) {
		for i, it := range l {
			if c10NilLike(it) {
				if keep {
					wantLists[name] = append(wantLists[name], "nil")
				}
				continue
			}
			k := c10Key(it)
			if len(it.GetLink()) == 0 {
				// no id: not an addressee; the entry stays where it is
				if keep {
					wantLists[name] = append(wantLists[name], k)
				}
				continue
			}
			if blockedKey != "" && k == blockedKey {
				continue // a Block never addresses the blocked object
			}
			if seen[k] {
				where := "across-lists"
				for _, prev := range l[:i] {
					if !c10NilLike(prev) && c10Key(prev) == k {
						where = "within-list"
					}
				}
				dup[where] = true
				continue
			}
			seen[k] = true
			wantRec = append(wantRec, k)
			if keep {
				wantLists[name] = append(wantLists[name], k)
			}
		}
	}
	for _, name := range []string{"To", "CC", "Bto", "BCC"} {
		scan(name, orig[name], true)
	}
	if withActor && actorIt != nil {
		scan("Actor", ap.ItemCollection{actorIt}, false)
	}
	scan("Audience", orig["Audience"], false)
	for _, k := range []string{"across-lists", "within-list"} {
		if dup[k] {
			dupPattern += k + " "
		}
	}

	// ---- the library
	var got ap.ItemCollection
	pi := evSafe(func() {
		got = p.Interface().(interface{ Recipients() ap.ItemCollection }).Recipients()
	})
	cls := c.GoType
	if c.BlockObj != nil && c.VType == "Block" {
		cls = "Block"
	}
	if pi != nil {
		feature := ""
		for _, name := range c10Order {
			for _, e := range c.Lists[name] {
				if e.Who < 0 {
					feature = " nil-entry"
				}
			}
		}
		return []keyed{{"recipients " + cls + " panic@" + pi.Frame + feature, pi.Value}}, dupPattern
	}
	var gotRec []string
	for _, it := range got {
		gotRec = append(gotRec, c10Key(it))
	}
	if strings.Join(gotRec, " ") != strings.Join(wantRec, " ") {
		ds = append(ds, keyed{"recipients " + cls + " returned", fmt.Sprintf("Recipients() = %v, reference scan gives %v", gotRec, wantRec)})
	}
	for _, name := range []string{"To", "CC", "Bto", "BCC"} {
		after := v.FieldByName(name).Interface().(ap.ItemCollection)
		var gotL []string
		for _, it := range after {
			gotL = append(gotL, c10Key(it))
		}
		if strings.Join(gotL, " ") != strings.Join(wantLists[name], " ") {
			ds = append(ds, keyed{"recipients " + cls + " list-after " + name, fmt.Sprintf("%s after the call = %v, reference %v (before: %v)", name, gotL, wantLists[name], c.Lists[name])})
		}
	}
	if blockedKey != "" {
		for _, name := range c10Order {
			for _, it := range v.FieldByName(name).Interface().(ap.ItemCollection) {
				if !c10NilLike(it) && c10Key(it) == blockedKey {
					ds = append(ds, keyed{"recipients Block still-addressed " + name, "the blocked object is still in " + name})
				}
			}
		}
	}
	return ds, dupPattern
}

func TestC10(t *testing.T) {
	r := ev.Open(t, "C10")
	defer r.Close(t)
	r.Rule("pairs: over the 4-entry alphabet {alice as IRI, bob as IRI, alice as embedded actor, nil} all 85 lists of length <= 3, every ordered pair of lists assigned to every pair of " +
		"to/cc/bto/bcc for Object, Create, Block and Ignore activities (object = alice for the last two; only the Block leaves her out); random: all five addressing properties (+actor), lists up to 8 over 5 addressees incl. the public collection " +
		"in IRI / embedded actor / embedded object / scheme-case-trailing-slash variant presentations and nil entries, all 13 types with Recipients(). Oracle: reference first-mention scan " +
		"(to, cc, bto, bcc, [actor], audience) under the IRI normaliser ignoring scheme; returned list and the four lists after the call are compared; Block clause. " +
		"shared: every one of the 85 lists assigned as one slice to every pair of the five addressing properties; near: the same pair enumeration over {alice, alice?page=1, an object alice?page=1&page=2}: three different addressees whose ids differ only in the query, two addressees named by acct: URIs, a collection object as an addressee and an embedded actor without an id (not an addressee; it stays in its list and ends nothing). " +
		"non-trivial = at least one addressee mentioned twice; distinct by the assignment")

	alpha := []c10Entry{{0, "iri"}, {1, "iri"}, {0, "actor"}, {-1, "nil"}}
	var lists [][]c10Entry
	var build func(cur []c10Entry)
	maxLen := 3
	build = func(cur []c10Entry) {
		lists = append(lists, append([]c10Entry{}, cur...))
		if len(cur) == maxLen {
			return
		}
		for _, e := range alpha {
			build(append(cur, e))
		}
	}
	build(nil)
	// second alphabet: alice, and two other addressees whose ids differ from hers only in the query
	alpha = []c10Entry{{0, "iri"}, {0, "near"}, {0, "near-object"}, {0, "opaque"}, {1, "opaque"}, {1, "collection"}, {2, "idless"}, {3, "nilptr"}}
	first := len(lists)
	maxLen = r.Pick(2, 3)
	build(nil)
	nearLists := lists[first:]
	lists = lists[:first]
	if r.WantLayer("near", true) {
		props := []string{"To", "CC", "Bto", "BCC"}
		total, done := 0, 0
		for _, vr := range []struct{ gt, vt string }{{"Object", "Note"}, {"Activity", "Block"}} {
			for a := 0; a < len(props); a++ {
				for b := a + 1; b < len(props); b++ {
					for _, la := range nearLists {
						for _, lb := range nearLists {
							total++
							c := c10Case{GoType: vr.gt, VType: vr.vt, Lists: map[string][]c10Entry{props[a]: la, props[b]: lb}}
							if vr.vt == "Block" {
								c.BlockObj = &c10Entry{0, "iri"}
							}
							cell := "near " + c.String()
							if !r.WantCell(cell) {
								continue
							}
							done++
							ds, dup := c10Run(c)
							r.Case(cell, len(la)+len(lb) >= 2, "near "+vr.vt, "near dup="+dup)
							if done%4001 == 0 {
								r.Sample(cell, map[string]interface{}{"layer": "near", "case": cell})
							}
							reportAll(r, "near", cell, ds, cell)
						}
					}
				}
			}
		}
		r.Cells(total, done)
		r.Exhaustive("near", !r.Replaying())
	}
	// one slice assigned to two of the value's own lists: the de-duplication edits the lists in place, one after the other, and what it
	// leaves in the shared backing array must not reach the list that keeps the first mentions
	if r.WantLayer("shared", true) {
		total, done := 0, 0
		for _, vr := range []struct{ gt, vt string }{{"Object", "Note"}, {"Activity", "Create"}, {"Place", "Place"}} {
			for i, pa := range c10Order {
				for j, pb := range c10Order {
					if j <= i {
						continue // the second property comes later in the scan order (c10Order is built in that order)
					}
					for _, l := range lists {
						if len(l) == 0 {
							continue
						}
						total++
						c := c10Case{GoType: vr.gt, VType: vr.vt, Lists: map[string][]c10Entry{pa: l, pb: l}, Shared: [2]string{pa, pb}}
						cell := c.String()
						if !r.WantCell(cell) {
							continue
						}
						done++
						ds, dup := c10Run(c)
						// and once more: what the first call left behind is the second call's input
						r.Case(cell, dup != "", "shared "+vr.vt)
						if done%499 == 0 {
							r.Sample(cell, map[string]interface{}{"layer": "shared", "case": cell})
						}
						for k := range ds {
							ds[k].Key += " shared-slice"
						}
						reportAll(r, "shared", cell, ds, cell)
					}
				}
			}
		}
		r.Cells(total, done)
		r.Exhaustive("shared", !r.Replaying())
	}
	// long lists: 1..40 addressees mentioned once in the first list and again (spelled another way, or as an embedded actor) in the
	// second, alone, followed by new ones, or interleaved with new ones - the number of entries one list loses is not bounded
	if r.WantLayer("long", true) {
		total := 0
		for _, vr := range []struct{ gt, vt string }{{"Object", "Note"}, {"Activity", "Create"}, {"Question", "Question"}} {
			for _, pp := range [][2]string{{"To", "CC"}, {"CC", "BCC"}, {"To", "Audience"}} {
				for n := 1; n <= 40; n++ {
					for pat := 0; pat < 4; pat++ {
						first, second := []c10Entry{}, []c10Entry{}
						for k := 0; k < n; k++ {
							first = append(first, c10Entry{5 + k, "iri"})
						}
						for k := 0; k < n; k++ {
							form := []string{"variant", "actor", "iri", "variant"}[pat]
							if pat == 2 {
								second = append(second, c10Entry{100 + k, "iri"}) // a new one before every repeated one
							}
							second = append(second, c10Entry{5 + (k*7)%n, form})
							if pat == 3 && k%3 == 0 {
								second = append(second, c10Entry{200 + k, "object"})
							}
						}
						if pat == 0 {
							second = append(second, c10Entry{300, "iri"})
						}
						c := c10Case{GoType: vr.gt, VType: vr.vt, Lists: map[string][]c10Entry{pp[0]: first, pp[1]: second}}
						cell := fmt.Sprintf("long %s[%s] %s/%s n=%d pattern=%d", vr.gt, vr.vt, pp[0], pp[1], n, pat)
						if !r.WantCell(cell) {
							continue
						}
						total++
						ds, dup := c10Run(c)
						r.Case(cell, dup != "", "long n>12="+fmt.Sprint(n > 12))
						if total%211 == 0 {
							r.Sample(cell, map[string]interface{}{"layer": "long", "case": cell})
						}
						for k := range ds {
							ds[k].Key += " long"
						}
						reportAll(r, "long", cell, ds, cell)
					}
				}
			}
		}
		r.Cells(total, total)
		r.Exhaustive("long", !r.Replaying())
	}
	if r.WantLayer("pairs", true) {
		props := []string{"To", "CC", "Bto", "BCC"}
		variants := []struct{ gt, vt string }{{"Object", "Note"}, {"Activity", "Create"}, {"Activity", "Block"}, {"Activity", "Ignore"}}
		total, done := 0, 0
		for _, vr := range variants {
			for a := 0; a < len(props); a++ {
				for b := a + 1; b < len(props); b++ {
					for _, la := range lists {
						for _, lb := range lists {
							total++
							c := c10Case{GoType: vr.gt, VType: vr.vt, Lists: map[string][]c10Entry{props[a]: la, props[b]: lb}}
							if vr.vt == "Block" || vr.vt == "Ignore" {
								// the object is alice, who is also addressed: only the Block leaves her out
								c.BlockObj = &c10Entry{0, "iri"}
							}
							cell := c.String()
							if !r.WantCell(cell) {
								continue
							}
							done++
							ds, dup := c10Run(c)
							r.Case(cell, dup != "", "pairs "+vr.vt, "pairs dup="+dup)
							if done%20011 == 0 {
								r.Sample(cell, map[string]interface{}{"layer": "pairs", "case": cell})
							}
							reportAll(r, "pairs", cell, ds, cell)
						}
					}
				}
			}
		}
		r.Cells(total, done)
		r.Exhaustive("pairs", !r.Replaying())
	}

	forms := []string{"iri", "iri", "actor", "object", "variant", "near", "near-object", "opaque", "collection", "idless", "nilptr"}
	r.Rapid(t, "random", r.Pick(4000, 30000), func(t *rapid.T) {
		gt := rapid.SampledFrom(c10Types).Draw(t, "gotype")
		c := c10Case{GoType: gt, VType: string(rapid.SampledFrom(vocab.NamesFor(gt)).Draw(t, "vtype")), Lists: map[string][]c10Entry{}}
		if gt == "Activity" && rapid.IntRange(0, 3).Draw(t, "block") == 0 {
			c.VType = "Block"
		}
		npool := rapid.IntRange(1, 5).Draw(t, "pool")
		entry := func() c10Entry {
			if rapid.IntRange(0, 11).Draw(t, "nilentry") == 0 {
				return c10Entry{-1, "nil"}
			}
			return c10Entry{rapid.IntRange(0, npool-1).Draw(t, "who"), rapid.SampledFrom(forms).Draw(t, "form")}
		}
		hasNil, hasVariant := false, false
		for _, name := range c10Order {
			if rapid.IntRange(0, 2).Draw(t, "use"+name) == 0 {
				continue
			}
			n := rapid.IntRange(0, r.Pick(6, 8)).Draw(t, "len")
			l := []c10Entry{}
			for i := 0; i < n; i++ {
				e := entry()
				hasNil = hasNil || e.Who < 0
				hasVariant = hasVariant || e.Form == "variant"
				l = append(l, e)
			}
			c.Lists[name] = l
		}
		if gt == "IntransitiveActivity" || gt == "Question" || gt == "Activity" {
			if rapid.Bool().Draw(t, "hasactor") {
				e := c10Entry{rapid.IntRange(0, npool-1).Draw(t, "actor"), rapid.SampledFrom([]string{"iri", "actor", "variant"}).Draw(t, "actorform")}
				c.Actor = &e
			}
		}
		if c.VType == "Block" || (gt == "Activity" && rapid.Bool().Draw(t, "object-is-addressee")) {
			e := c10Entry{rapid.IntRange(0, npool-1).Draw(t, "blocked"), rapid.SampledFrom([]string{"iri", "actor", "object"}).Draw(t, "blockedform")}
			c.BlockObj = &e
		}
		ds, dup := c10Run(c)
		canon := c.String()
		labels := []string{"random type=" + gt, "random dup=" + dup}
		if hasNil {
			labels = append(labels, "random has=nil-entry")
		}
		if hasVariant {
			labels = append(labels, "random has=variant")
		}
		if c.BlockObj != nil && c.VType == "Block" {
			labels = append(labels, "random has=block")
		} else if c.BlockObj != nil {
			labels = append(labels, "random has=object-among-addressees")
		}
		r.Case(canon, dup != "", labels...)
		r.Sample(canon, map[string]interface{}{"layer": "random", "case": canon})
		failUnknown(r, t, "random", ds, map[string]interface{}{"case": canon})
	})
}
