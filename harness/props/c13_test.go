package props

import (
	"fmt"
	"reflect"
	"strings"
	"testing"
	"time"

	ap "github.com/go-ap/activitypub"
	"pgregory.net/rapid"
	"verif/harness/ev"
	"verif/harness/vocab"
)

// C13 — Collections are insertion-ordered sets under Append/Contains/Remove.

var c13Containers = []string{"ItemCollection", "IRIs", "Collection", "CollectionPage", "OrderedCollection", "OrderedCollectionPage"}

func c13New(kind string) ap.CollectionInterface {
	switch kind {
	case "ItemCollection":
		return &ap.ItemCollection{}
	case "IRIs":
		return &ap.IRIs{}
	case "Collection":
		return &ap.Collection{ID: "https://example.com/c", Type: ap.CollectionType, TotalItems: 9}
	case "CollectionPage":
		return &ap.CollectionPage{ID: "https://example.com/cp", Type: ap.CollectionPageType, TotalItems: 9}
	case "OrderedCollection":
		return &ap.OrderedCollection{ID: "https://example.com/oc", Type: ap.OrderedCollectionType, TotalItems: 9}
	case "OrderedCollectionPage":
		return &ap.OrderedCollectionPage{ID: "https://example.com/ocp", Type: ap.OrderedCollectionPageType, TotalItems: 9}
	}
	panic(kind)
}

// pool of items with pairwise non-equivalent ids in mixed shapes
var c13RichAll []ap.Item

func c13Pool(kind string, variant string) []ap.Item {
	if variant == "near" {
		// distinct identities that are as close to each other as identities get: one host and path, the query absent, a subset,
		// another value, a repeated key; another port; a longer path
		ids := []string{"https://example.com/outbox", "https://example.com/outbox?page=1", "https://example.com/outbox?page=1&page=2", "https://example.com/outbox?page=2",
			"https://example.com:8443/outbox", "https://example.com/outbox/1"}
		if kind == "IRIs" {
			var out []ap.Item
			for _, id := range ids {
				out = append(out, ap.IRI(id))
			}
			return out
		}
		return []ap.Item{ap.IRI(ids[0]), ap.IRI(ids[1]), &ap.Object{ID: ap.IRI(ids[2]), Type: ap.ArticleType}, &ap.Object{ID: ap.IRI(ids[3]), Type: ap.NoteType},
			&ap.Actor{ID: ap.IRI(ids[4]), Type: ap.ServiceType}, ap.IRI(ids[5])}
	}
	if variant == "wrapped" {
		// ids that carry another member's id in their query (interaction and proxy endpoints): other resources, although they end alike
		a := "https://a.example/users/1"
		ids := []string{a, "https://b.example/proxy?id=" + a, "https://c.example/authorize_interaction?uri=" + a, "https://a.example/users/2", "https://b.example/proxy?id=https://a.example/users/2", a + "/sub"}
		if kind == "IRIs" {
			var out []ap.Item
			for _, id := range ids {
				out = append(out, ap.IRI(id))
			}
			return out
		}
		return []ap.Item{ap.IRI(ids[0]), ap.IRI(ids[1]), &ap.Object{ID: ap.IRI(ids[2]), Type: ap.NoteType}, &ap.Actor{ID: ap.IRI(ids[3]), Type: ap.PersonType}, ap.IRI(ids[4]), ap.IRI(ids[5])}
	}
	if variant == "ipv6" {
		// hosts that are IPv6 literals sharing their leading groups, with and without a port: different hosts, different members
		ids := []string{"https://[2001:db8::1]/actors/1", "https://[2001:db8::2]/actors/1", "https://[2001:db8::1]:8080/actors/1", "https://[2001:db8:0:1::1]/actors/1", "https://[::1]/actors/1", "https://[::1]:8080/actors/1"}
		if kind == "IRIs" {
			var out []ap.Item
			for _, id := range ids {
				out = append(out, ap.IRI(id))
			}
			return out
		}
		return []ap.Item{ap.IRI(ids[0]), ap.IRI(ids[1]), &ap.Object{ID: ap.IRI(ids[2]), Type: ap.NoteType}, &ap.Actor{ID: ap.IRI(ids[3]), Type: ap.PersonType}, ap.IRI(ids[4]), ap.IRI(ids[5])}
	}
	if variant == "relative" {
		// ids that are relative references (fragment-only ids of a JSON-LD document, paths, a query): different strings, different members
		ids := []string{"#first", "#second", "#third-part", "relative/a", "relative/b", "?only=query"}
		if kind == "IRIs" {
			var out []ap.Item
			for _, id := range ids {
				out = append(out, ap.IRI(id))
			}
			return out
		}
		return []ap.Item{ap.IRI(ids[0]), ap.IRI(ids[1]), &ap.Object{ID: ap.IRI(ids[2]), Type: ap.NoteType}, &ap.Actor{ID: ap.IRI(ids[3]), Type: ap.PersonType}, ap.IRI(ids[4]), ap.IRI(ids[5])}
	}
	if variant == "querymulti" {
		// ids that repeat a query key the same number of times, agree on its first value and differ in a later one
		b := "https://example.com/notes"
		ids := []string{b + "?tag=go&tag=activitypub", b + "?tag=go&tag=json", b + "?tag=go&tag=xml", b + "?tag=go", b + "?tag=json&tag=xml", b + "?tag=go&tag=json&tag=json"}
		if kind == "IRIs" {
			var out []ap.Item
			for _, id := range ids {
				out = append(out, ap.IRI(id))
			}
			return out
		}
		return []ap.Item{ap.IRI(ids[0]), ap.IRI(ids[1]), &ap.Object{ID: ap.IRI(ids[2]), Type: ap.NoteType}, &ap.Actor{ID: ap.IRI(ids[3]), Type: ap.PersonType}, ap.IRI(ids[4]), ap.IRI(ids[5])}
	}
	if variant == "instants" && kind != "IRIs" {
		// members whose instants are what a clock hands out: fractions of a second, another zone, before 1970 - each member is itself
		t0 := time.Date(2024, 2, 29, 23, 59, 59, 123456789, time.FixedZone("plus0530", 5*3600+1800))
		return []ap.Item{
			&ap.Object{ID: "https://example.com/stamped/1", Type: ap.NoteType, Updated: t0, Published: t0.Add(-time.Hour)},
			&ap.Actor{ID: "https://example.com/stamped/2", Type: ap.PersonType, Updated: t0.Add(999999999 - 123456789), Published: t0.UTC()},
			&ap.Activity{ID: "https://example.com/stamped/3", Type: ap.UpdateType, Updated: time.Date(1969, 12, 31, 23, 59, 59, 500000000, time.UTC), StartTime: t0, EndTime: t0.Add(time.Millisecond)},
			ap.Object{ID: "https://example.com/stamped/4", Type: ap.ArticleType, Updated: time.Unix(1700000000, 1)},
			&ap.Tombstone{ID: "https://example.com/stamped/5", Type: ap.TombstoneType, Deleted: t0, Updated: t0.Add(time.Nanosecond)},
			&ap.Question{ID: "https://example.com/stamped/6", Type: ap.QuestionType, Updated: t0.Add(500 * time.Millisecond), EndTime: t0},
		}
	}
	if variant == "opaque" {
		// identities that are URIs without an authority (urn:, acct:, did:, mailto:, tag:): distinct strings, distinct members
		ids := []string{"urn:uuid:6e8bc430-9c3a-11d9-9669-0800200c9a66", "urn:uuid:6e8bc430-9c3a-11d9-9669-0800200c9a67", "acct:alice@example.com", "did:example:123456789abcdefghi",
			"mailto:bob@example.com", "tag:example.com,2024:note-1"}
		if kind == "IRIs" {
			var out []ap.Item
			for _, id := range ids {
				out = append(out, ap.IRI(id))
			}
			return out
		}
		return []ap.Item{ap.IRI(ids[0]), &ap.Object{ID: ap.IRI(ids[1]), Type: ap.NoteType}, ap.IRI(ids[2]), &ap.Actor{ID: ap.IRI(ids[3]), Type: ap.PersonType}, ap.IRI(ids[4]),
			&ap.Object{ID: ap.IRI(ids[5]), Type: ap.ArticleType}}
	}
	if strings.HasPrefix(variant, "twin") && kind != "IRIs" {
		// members of one type that hold the same in every property (the same shared inbox, the same first page, the same subject) and
		// differ in their ids only: different members all the same
		k := 0
		fmt.Sscan(variant[4:], &k)
		var types []reflect.Type
		for _, st := range vocab.StructTypes {
			if st.Name() != "Link" {
				types = append(types, st)
			}
		}
		st := types[k%len(types)]
		var out []ap.Item
		for i := 0; i < 6; i++ {
			x := vocab.Everything(st, false)
			reflect.ValueOf(x).Elem().FieldByName("ID").SetString(fmt.Sprintf("https://example.com/twins/%s/%d", strings.ToLower(st.Name()), i))
			out = append(out, x)
		}
		return out
	}
	if strings.HasPrefix(variant, "rich") && kind != "IRIs" {
		// members that hold everything their type can hold (pages with prev/next/first/last/partOf, questions with options, places,
		// relationships ...), one of them nested in a property of a plain object: membership is full equality of such members
		all := c13RichAll
		for i, st := range vocab.StructTypes {
			if c13RichAll != nil {
				break // built once: members are only read
			}
			if st.Name() == "Link" {
				continue
			}
			x := vocab.Everything(st, false)
			reflect.ValueOf(x).Elem().FieldByName("ID").SetString(fmt.Sprintf("https://example.com/rich/%d", i))
			all = append(all, x)
			if st.Name() == "CollectionPage" || st.Name() == "OrderedCollectionPage" {
				all = append(all, &ap.Object{ID: ap.IRI(fmt.Sprintf("https://example.com/rich/holder-%d", i)), Type: ap.NoteType, Replies: vocab.Everything(st, false)})
			}
		}
		if c13RichAll == nil {
			c13RichAll = all
		}
		k := int(variant[len(variant)-1] - '0')
		var out []ap.Item
		for i := 0; i < 6; i++ {
			m := all[(3*k+i)%len(all)]
			if strings.HasPrefix(variant, "richval") {
				// the same members held by value: every type, intransitive activities, places and pages included
				m = reflect.ValueOf(m).Elem().Interface().(ap.Item)
			}
			out = append(out, m)
		}
		return out
	}
	if kind == "IRIs" {
		var out []ap.Item
		for i := 0; i < 6; i++ {
			out = append(out, ap.IRI(fmt.Sprintf("https://example.com/items/%d", i)))
		}
		return out
	}
	if variant == "val" {
		// the same identities with the embedded members held by value instead of by pointer
		return []ap.Item{
			ap.Object{ID: "https://example.com/items/0", Type: ap.NoteType, Name: ap.DefaultNaturalLanguageValue("zero")},
			ap.Actor{ID: "https://example.com/items/1", Type: ap.PersonType, PreferredUsername: ap.DefaultNaturalLanguageValue("one")},
			ap.IRI("https://example.com/items/2"),
			ap.Activity{ID: "https://example.com/items/3", Type: ap.CreateType, Actor: ap.IRI("https://example.com/items/2"), Object: ap.IRI("https://example.com/items/1")},
			ap.Object{ID: "https://example.com/items/4", Type: ap.ArticleType, Summary: ap.DefaultNaturalLanguageValue("four")},
			&ap.Object{ID: "https://example.com/items/5", Type: ap.ArticleType, Summary: ap.DefaultNaturalLanguageValue("five")},
		}
	}
	return []ap.Item{
		ap.IRI("https://example.com/items/0"),
		&ap.Object{ID: "https://example.com/items/1", Type: ap.NoteType, Name: ap.DefaultNaturalLanguageValue("one")},
		&ap.Actor{ID: "https://example.com/items/2", Type: ap.PersonType, PreferredUsername: ap.DefaultNaturalLanguageValue("two")},
		&ap.Activity{ID: "https://example.com/items/3", Type: ap.CreateType, Actor: ap.IRI("https://example.com/items/2"), Object: ap.IRIs{"https://example.com/items/1", "https://example.com/items/9"}},
		ap.IRI("https://other.example.org/items/4?x=1"),
		// a member whose own properties hold lists in the IRI-list form: membership goes through full equality of such members
		&ap.Object{ID: "https://example.com/items/5", Type: ap.ArticleType, Summary: ap.DefaultNaturalLanguageValue("five"),
			AttributedTo: ap.IRIs{"https://example.com/authors/a", "https://example.com/authors/b"}, Tag: ap.ItemCollection{ap.IRIs{"https://example.com/t/1"}}},
	}
}

// c13KindVariants: every container with the pointer-form pool, the item-holding ones also with the value-form pool.
func c13KindVariants() [][2]string {
	var out [][2]string
	for _, k := range c13Containers {
		out = append(out, [2]string{k, ""})
	}
	for _, k := range c13Containers {
		if k != "IRIs" {
			out = append(out, [2]string{k, "val"})
		}
	}
	for _, k := range c13Containers {
		out = append(out, [2]string{k, "near"}, [2]string{k, "opaque"}, [2]string{k, "wrapped"}, [2]string{k, "ipv6"}, [2]string{k, "relative"}, [2]string{k, "querymulti"})
	}
	for _, k := range c13Containers {
		if k != "IRIs" {
			for _, v := range []string{"rich0", "rich1", "rich2", "rich3", "rich4", "richval0", "richval1", "richval2", "richval3", "richval4"} {
				out = append(out, [2]string{k, v})
			}
			for i := 0; i < 13; i++ {
				out = append(out, [2]string{k, fmt.Sprintf("twin%d", i)})
			}
			out = append(out, [2]string{k, "instants"})
		}
	}
	return out
}

type c13Op struct {
	Kind  string // append | remove | contains
	Items []int
}

func (o c13Op) String() string {
	return fmt.Sprintf("%s%v", o.Kind, o.Items)
}

type c13Model []int

func (m c13Model) has(i int) bool {
	for _, x := range m {
		if x == i {
			return true
		}
	}
	return false
}

func (m c13Model) apply(o c13Op) c13Model {
	out := append(c13Model{}, m...)
	switch o.Kind {
	case "append":
		for _, i := range o.Items {
			if !out.has(i) {
				out = append(out, i)
			}
		}
	case "remove":
		for k, x := range out {
			if x == o.Items[0] {
				out = append(out[:k:k], out[k+1:]...)
				break
			}
		}
	}
	return out
}

// c13Step applies an operation to the container and checks every stated observable against the model.
func c13Step(kind string, c ap.CollectionInterface, pool []ap.Item, before c13Model, o c13Op) (after c13Model, key, detail string) {
	after = before.apply(o)
	pi := evSafe(func() {
		switch o.Kind {
		case "append":
			var its []ap.Item
			for _, i := range o.Items {
				its = append(its, pool[i])
			}
			if err := c.Append(its...); err != nil {
				key, detail = "set "+kind+" append-error", err.Error()
				return
			}
		case "remove":
			view, err := ap.ToItemCollection(c)
			if err != nil {
				key, detail = "set "+kind+" remove-view-error", err.Error()
				return
			}
			view.Remove(pool[o.Items[0]])
		case "contains":
			got := c.Contains(pool[o.Items[0]])
			if want := before.has(o.Items[0]); got != want {
				key, detail = "set "+kind+" contains", fmt.Sprintf("Contains(item %d) = %v, model %v", o.Items[0], got, want)
				return
			}
		}
		if int(c.Count()) != len(after) {
			key, detail = "set "+kind+" count after-"+o.Kind, fmt.Sprintf("Count() = %d, model has %d members %v", c.Count(), len(after), after)
			return
		}
		members := c.Collection()
		if len(members) != len(after) {
			key, detail = "set "+kind+" members after-"+o.Kind, fmt.Sprintf("Collection() has %d members, model %v", len(members), after)
			return
		}
		for k, m := range members {
			if m == nil || m.GetLink() != pool[after[k]].GetLink() {
				key, detail = "set "+kind+" order after-"+o.Kind, fmt.Sprintf("member %d is %v, model says item %d (%s)", k, m, after[k], pool[after[k]].GetLink())
				return
			}
		}
		for i := range pool {
			if got, want := c.Contains(pool[i]), after.has(i); got != want {
				key, detail = "set "+kind+" membership after-"+o.Kind, fmt.Sprintf("Contains(item %d) = %v, model %v (members %v)", i, got, want, after)
				return
			}
		}
	})
	if pi != nil {
		return after, "set " + kind + " panic@" + pi.Frame, pi.Value
	}
	return after, key, detail
}

func c13OpsString(ops []c13Op) string {
	var s []string
	for _, o := range ops {
		s = append(s, o.String())
	}
	return strings.Join(s, " ")
}

func c13NonTrivial(hist []c13Op) bool {
	appends := 0
	seen := map[int]bool{}
	for _, o := range hist {
		switch o.Kind {
		case "append":
			for _, i := range o.Items {
				if seen[i] {
					return true // re-append of a present or removed item
				}
				seen[i] = true
				appends++
			}
		case "remove":
			if appends >= 2 {
				return true
			}
		}
	}
	return false
}

func TestC13(t *testing.T) {
	r := ev.Open(t, "C13")
	defer r.Close(t)
	r.Rule("histories over a pool of items with pairwise non-equivalent ids in mixed shapes (IRI, Object, Actor, Activity; held by pointer, in the /val variant by value, in the /near variant with ids that differ only in their query, port or last path segment, in the /wrapped variant with ids that carry another member's id in their query, in the /opaque variant with URIs that have no authority: urn:, acct:, did:, mailto:, tag:, and in the /rich0-4 variants with members of all 13 object types holding every property their type has, pages also nested in an object's replies; in the /richval0-4 variants the same members held by value; and in the /twin0-12 variants with six members of one type that hold the same in every property and differ in their ids only): every history of Append(1 or 2 items)/Remove/Contains " +
		"up to the length bound over a 3-item pool for each of the 6 containers (Remove through ToItemCollection(container); not offered for IRIs whose item-list view is a copy), then random " +
		"histories over a 6-item pool; after every step Count(), Collection() order and Contains() of every pool item are compared with a reference ordered set. " +
		"non-trivial = a Remove after >= 2 appended items or a re-Append of an item seen before; distinct by container + op sequence")

	if r.WantLayer("histories", true) {
		maxLen := r.Pick(4, 5)
		total := 0
		for _, kv := range c13KindVariants() {
			kind, variant := kv[0], kv[1]
			pool := c13Pool(kind, variant)
			maxLen := maxLen
			if variant != "" && !r.Thorough() {
				maxLen--
			}
			if strings.HasPrefix(variant, "rich") || strings.HasPrefix(variant, "twin") {
				maxLen-- // what these pools add shows in the first steps (a member that is not equal to itself, or equal to another)
			}
			tag := kind
			if variant != "" {
				tag = kind + "/" + variant
			}
			var ops []c13Op
			for i := 0; i < 3; i++ {
				ops = append(ops, c13Op{"append", []int{i}}, c13Op{"contains", []int{i}})
				if kind != "IRIs" {
					ops = append(ops, c13Op{"remove", []int{i}})
				}
			}
			ops = append(ops, c13Op{"append", []int{0, 1}}, c13Op{"append", []int{2, 2}}, c13Op{"append", []int{2, 1, 0}})
			// replay a history from scratch for every leaf: containers are mutable, so each history owns its container
			var rec func(prefix []c13Op)
			rec = func(prefix []c13Op) {
				if len(prefix) > 0 {
					cell := tag + ": " + c13OpsString(prefix)
					if !r.Replaying() || strings.HasPrefix(r.ReplayCell(), cell) {
						total++
						c := c13New(kind)
						var m c13Model
						ok := true
						for _, o := range prefix {
							var key, detail string
							m, key, detail = c13Step(tag, c, pool, m, o)
							if key != "" {
								r.Report("histories", cell, key, "after "+cell+": "+detail, map[string]interface{}{"container": tag, "ops": c13OpsString(prefix)})
								ok = false
								break
							}
						}
						r.Case(cell, c13NonTrivial(prefix), "histories container="+tag, fmt.Sprintf("histories len=%d", len(prefix)))
						if total%30011 == 0 {
							r.Sample(cell, map[string]interface{}{"layer": "histories", "container": tag, "ops": c13OpsString(prefix), "final_members": fmt.Sprint(m)})
						}
						if !ok {
							return
						}
					}
				}
				if len(prefix) == maxLen {
					return
				}
				for _, o := range ops {
					rec(append(append([]c13Op{}, prefix...), o))
				}
			}
			rec(nil)
		}
		r.Cells(total, total)
		r.Exhaustive("histories", !r.Replaying())
		r.Note("history_length_bound", maxLen)
	}

	r.Rapid(t, "random", r.Pick(3000, 12000), func(t *rapid.T) {
		kv := rapid.SampledFrom(c13KindVariants()).Draw(t, "container")
		kind, variant := kv[0], kv[1]
		pool := c13Pool(kind, variant)
		tag := kind
		if variant != "" {
			tag = kind + "/" + variant
		}
		c := c13New(kind)
		var m c13Model
		var hist []c13Op
		n := rapid.IntRange(1, r.Pick(40, 100)).Draw(t, "n")
		kinds := []string{"append", "append", "contains", "remove"}
		if kind == "IRIs" {
			kinds = []string{"append", "append", "contains"}
		}
		for s := 0; s < n; s++ {
			o := c13Op{Kind: rapid.SampledFrom(kinds).Draw(t, "op")}
			k := 1
			if o.Kind == "append" {
				k = rapid.IntRange(1, 3).Draw(t, "k")
			}
			for i := 0; i < k; i++ {
				o.Items = append(o.Items, rapid.IntRange(0, len(pool)-1).Draw(t, "item"))
			}
			hist = append(hist, o)
			var key, detail string
			m, key, detail = c13Step(tag, c, pool, m, o)
			if key != "" {
				r.Case(tag+": "+c13OpsString(hist), c13NonTrivial(hist), "random diverged")
				failUnknown(r, t, "random", []keyed{{key, "after " + c13OpsString(hist) + ": " + detail}}, map[string]interface{}{"container": tag, "ops": c13OpsString(hist)})
				return
			}
		}
		canon := tag + ": " + c13OpsString(hist)
		r.Case(canon, c13NonTrivial(hist), "random container="+tag)
		r.Sample(canon, map[string]interface{}{"layer": "random", "container": tag, "ops": c13OpsString(hist), "final_members": fmt.Sprint(m)})
	})
}
