package props

import (
	"fmt"
	"path/filepath"
	"regexp"
	"sort"
	"strings"
	"testing"

	ap "github.com/go-ap/activitypub"
	"pgregory.net/rapid"
	"verif/harness/ev"
	"verif/harness/oracle"
)

// C14 — IRI equivalence is an equivalence relation with the documented insensitivities.

type gridIRI struct {
	s                             string
	scheme, host, path, query, fr int
	key                           oracle.IRIKey
	qdup                          bool
}

var (
	c14Schemes = []string{"http", "https", "HTTPS"}
	c14Hosts   = []string{"example.com", "EXAMPLE.com", "example.com:8080", "sub.example.com", "other.org"}
	c14Paths   = []string{"", "/", "/a", "/A", "/a/", "/a/b", "/a/./b", "/a/c/../b", "/a//b", "/a/b/c", "/.", "//", "/proxy/https://remote.example/actor", "/../a", "/a/../../b", "/.."}
	c14Queries = []string{"", "?x=1", "?x=2", "?x=1&y=2", "?y=2&x=1", "?x=1&x=2", "?x=2&x=1", "?x=1&x=1", "?x=", "?x=1&y=2&z=3", "?iri=https://remote.example/actor", "?next=/home", "?next=/home/",
		// other spellings of the same parameters: a key without '=', a trailing and a doubled separator, a space as + and as %20
		"?x", "?y=2&x=1&", "?x=1&&y=2", "?q=a+b", "?q=a%20b"}
	c14Frags = []string{"", "#f", "#g"}
)

func c14Grid() []gridIRI {
	var g []gridIRI
	for si, s := range c14Schemes {
		for hi, h := range c14Hosts {
			for pi, p := range c14Paths {
				for qi, q := range c14Queries {
					for fi, f := range c14Frags {
						str := s + "://" + h + p + q + f
						g = append(g, gridIRI{str, si, hi, pi, qi, fi, oracle.NormIRI(str), strings.Count(q, "x=") > 1})
					}
				}
			}
		}
	}
	return g
}

func c14DiffClass(a, b gridIRI) (string, int) {
	var d []string
	if a.scheme != b.scheme {
		d = append(d, "scheme")
	}
	if a.host != b.host {
		d = append(d, "host")
	}
	if a.path != b.path {
		d = append(d, "path")
	}
	if a.query != b.query {
		if a.qdup || b.qdup {
			d = append(d, "query-repeated-key")
		} else {
			d = append(d, "query")
		}
	}
	if a.fr != b.fr {
		d = append(d, "frag")
	}
	if len(d) == 0 {
		return "none", 0
	}
	return strings.Join(d, "+"), len(d)
}

// c14KeyClass names the components a disagreement can originate in: path and query when they differ,
// otherwise whatever differs (keeps one root cause under one key).
func c14KeyClass(a, b gridIRI) string {
	var d []string
	if a.path != b.path {
		d = append(d, "path")
	}
	if a.query != b.query {
		if a.qdup || b.qdup {
			d = append(d, "query-repeated-key")
		} else {
			d = append(d, "query")
		}
	}
	if len(d) == 0 {
		c, _ := c14DiffClass(a, b)
		return c
	}
	return strings.Join(d, "+")
}

func c14Equiv(a, b oracle.IRIKey, cs bool) bool {
	if cs && a.Scheme != b.Scheme {
		return false
	}
	return a.Host == b.Host && a.Path == b.Path && a.Query == b.Query
}

func TestC14(t *testing.T) {
	r := ev.Open(t, "C14")
	defer r.Close(t)
	r.Rule("grid: ordered pairs of absolute URLs from scheme x host x path x query x fragment variants, both checkScheme values, " +
		"IRI.Equals compared with the reference normaliser (lower-case scheme/host, cleaned lower-case path, query multiset, no fragment); " +
		"hosts: every ordered pair of 24 host spellings (names, IPv4, bracketed IPv6, ports) x 2 schemes x 4 paths x 2 queries; random: URL + mutated presentation; strings: reflexivity and symmetry; lists: IRIs.Contains vs exists-Equals. " +
		"non-trivial = the two IRIs differ textually and are either equivalent or differ in exactly one component; distinct by (a,b,checkScheme)")
	r.Assume("net/url parsing is trusted (shared by library and reference)")
	r.Assume("query strings in one letter case (case of queries is outside the property's domain)")

	grid := c14Grid()
	if r.WantLayer("grid", false) {
		// rows: all of them in the thorough tier (split over the shards), a seed-dependent sample of 150 in quick
		var rows []int
		if r.Thorough() {
			for i := range grid {
				if i%r.Shards == r.Shard {
					rows = append(rows, i)
				}
			}
		} else {
			step := len(grid) / 150
			off := int(uint64(r.Seed) * 7919 % uint64(step))
			for i := off; i < len(grid); i += step {
				rows = append(rows, i)
			}
		}
		cells := 0
		for _, i := range rows {
			a := grid[i]
			for j := range grid {
				b := grid[j]
				for _, cs := range []bool{false, true} {
					cell := fmt.Sprintf("%s %s %v", a.s, b.s, cs)
					if !r.WantCell(cell) {
						continue
					}
					cells++
					want := c14Equiv(a.key, b.key, cs)
					var got bool
					pi := ev.Safe(func() { got = ap.IRI(a.s).Equals(ap.IRI(b.s), cs) })
					cls, n := c14DiffClass(a, b)
					nt := a.s != b.s && (want || n == 1)
					r.Case(cell, nt, "grid diff="+cls)
					if nt && (i+j)%9973 == 0 {
						r.Sample(cell, map[string]interface{}{"layer": "grid", "a": a.s, "b": b.s, "checkScheme": cs, "expected_equal": want, "got": got})
					}
					if pi != nil {
						r.Report("grid", cell, "iri panic@"+pi.Frame, pi.Value, map[string]interface{}{"a": a.s, "b": b.s, "checkScheme": cs})
						continue
					}
					if got != want {
						w := "ne"
						if want {
							w = "eq"
						}
						key := fmt.Sprintf("iri grid diff=%s want=%s", c14KeyClass(a, b), w)
						r.Report("grid", cell, key, fmt.Sprintf("IRI(%q).Equals(%q, %v) = %v, reference says %v", a.s, b.s, cs, got, want),
							map[string]interface{}{"a": a.s, "b": b.s, "checkScheme": cs, "expected_equal": want, "got": got})
					}
				}
			}
		}
		total := len(grid) * len(grid) * 2
		r.Cells(total, cells)
		r.Exhaustive("grid", r.Thorough() && !r.Replaying())
		r.Note("grid_size", len(grid))
	}

	// ---- queries: every ordered pair of query spellings on one host and path: repeated keys whose values hold the characters a
	// careless comparison would use as a separator, or that concatenate to the same text, next to the grid's own spellings ----
	if r.WantLayer("queries", true) {
		qs := append(append([]string{}, c14Queries...),
			"?t=a,b&t=c", "?t=a&t=b,c", "?t=a%2Cb&t=c", "?t=a,b,c", "?t=a&t=b&t=c", "?t=c&t=b&t=a", "?t=a|b&t=c", "?t=a&t=b|c", "?t=ab&t=c", "?t=a&t=bc", "?t=a+b&t=c", "?t=a&t=b+c", "?t=a%20b&t=c",
			"?t=a=b", "?t=a%3Db", "?t=a&u=b", "?t=a%26u%3Db", "?t=&t=a", "?t=a&t=", "?t=a", "?t=a&t=a", "?t=a&t=a&t=b", "?t=a&t=b&t=b", "?t=a,a&t=b", "?t=a&t=a,b", "?t=a%00b&t=c", "?t=a&t=%00b&t=c",
			"?t=a/b&t=c", "?t=a&t=b/c", "?t=1&t=10", "?t=11&t=0", "?t=a&t=b", "?a,b=1", "?a=1&b=1")
		n := 0
		for _, base := range []string{"https://example.com/a", "http://example.com:8080/"} {
			for _, qa := range qs {
				for _, qb := range qs {
					for _, cs := range []bool{false, true} {
						a, b := base+qa, base+qb
						cell := fmt.Sprintf("queries %s %s %v", a, b, cs)
						if !r.WantCell(cell) {
							continue
						}
						n++
						want := c14Equiv(oracle.NormIRI(a), oracle.NormIRI(b), cs)
						var got, inList bool
						pi := ev.Safe(func() {
							got = ap.IRI(a).Equals(ap.IRI(b), cs)
							inList = ap.IRIs{ap.IRI(a)}.Contains(ap.IRI(b))
						})
						r.Case(cell, qa != qb, "queries")
						if n%997 == 0 {
							r.Sample(cell, map[string]interface{}{"layer": "queries", "a": a, "b": b, "checkScheme": cs, "expected_equal": want, "got": got})
						}
						w := "ne"
						if want {
							w = "eq"
						}
						switch {
						case pi != nil:
							r.Report("queries", cell, "iri panic@"+pi.Frame, pi.Value, cell)
						case got != want:
							r.Report("queries", cell, "iri queries want="+w, fmt.Sprintf("IRI(%q).Equals(%q, %v) = %v, reference says %v", a, b, cs, got, want), cell)
						case !cs && inList != want:
							r.Report("queries", cell, "iri queries contains want="+w, fmt.Sprintf("IRIs{%q}.Contains(%q) = %v, reference says %v", a, b, inList, want), cell)
						}
					}
				}
			}
		}
		r.Cells(n, n)
		r.Exhaustive("queries", !r.Replaying())
	}

	// ---- hosts: every pair of host spellings (names, IPv4, bracketed IPv6, with and without ports) on a small path/query set ----
	if r.WantLayer("hosts", true) {
		hostSpellings := []string{"example.com", "example.com:8080", "example.com:80", "example.com:8081", "example.org", "a.example.com", "127.0.0.1", "127.0.0.1:3000", "127.0.0.2", "127.0.0.1:3001",
			"[::1]", "[::2]", "[::1]:8080", "[::1]:9090", "[::2]:8080", "[2001:db8::1]", "[2001:db8::2]", "[2001:DB8::1]", "[2001:db8::1]:443", "[2001:db9::1]", "[fe80::1%25eth0]", "xn--mnchen-3ya.de", "localhost", "localhost:8080",
			// a host that ends in digits against the shorter host with those digits as its port: other authorities, however they are glued together
			"node1", "node:1", "127.0.0.180", "127.0.0.1:80", "[::1]:80", "[::180]", "example.com8080"}
		var hg []gridIRI
		for si, sch := range []string{"https", "http"} {
			for hi, h := range hostSpellings {
				for pi, p := range []string{"", "/a", "/a/", "/b"} {
					for qi, q := range []string{"", "?x=1"} {
						str := sch + "://" + h + p + q
						hg = append(hg, gridIRI{str, si, hi, pi, qi, 0, oracle.NormIRI(str), false})
					}
				}
			}
		}
		cells := 0
		for i, a := range hg {
			for j, b := range hg {
				for _, cs := range []bool{false, true} {
					cell := fmt.Sprintf("%s %s %v", a.s, b.s, cs)
					if !r.WantCell(cell) {
						continue
					}
					cells++
					want := c14Equiv(a.key, b.key, cs)
					var got bool
					pi := ev.Safe(func() { got = ap.IRI(a.s).Equals(ap.IRI(b.s), cs) })
					cls, n := c14DiffClass(a, b)
					nt := a.s != b.s && (want || n == 1)
					r.Case(cell, nt, "hosts diff="+cls)
					if nt && (i*len(hg)+j)%4999 == 0 {
						r.Sample(cell, map[string]interface{}{"layer": "hosts", "a": a.s, "b": b.s, "checkScheme": cs, "expected_equal": want, "got": got})
					}
					if pi != nil {
						r.Report("hosts", cell, "iri panic@"+pi.Frame, pi.Value, map[string]interface{}{"a": a.s, "b": b.s, "checkScheme": cs})
						continue
					}
					if got != want {
						w := "ne"
						if want {
							w = "eq"
						}
						key := fmt.Sprintf("iri hosts diff=%s want=%s", cls, w)
						r.Report("hosts", cell, key, fmt.Sprintf("IRI(%q).Equals(%q, %v) = %v, reference says %v", a.s, b.s, cs, got, want),
							map[string]interface{}{"a": a.s, "b": b.s, "checkScheme": cs, "expected_equal": want, "got": got})
					}
				}
			}
		}
		r.Cells(len(hg)*len(hg)*2, cells)
		r.Exhaustive("hosts", !r.Replaying())
		r.Note("hosts_grid_size", len(hg))
	}

	// ---- saved fuzz inputs (replays of FuzzC14 crashers)
	if r.WantLayer("corpus", true) {
		n := 0
		for _, f := range fuzzFiles("FuzzC14", "C14") {
			args, ok := readFuzzArgs(f)
			if !ok || len(args) != 2 || !r.WantCell(filepath.Base(f)) {
				continue
			}
			n++
			a, _ := args[0].(string)
			b, _ := args[1].(string)
			r.Case("corpus "+filepath.Base(f), true, "corpus")
			reportAll(r, "corpus", filepath.Base(f), c14FuzzOne(a, b), map[string]interface{}{"a": a, "b": b})
		}
		r.Cells(n, n)
	}

	// ---- random URLs beyond the grid ----
	seg := rapid.SampledFrom([]string{"a", "A", "b", "users", "Users", "~jdoe", "x.y", "1", "inbox", "%41", "%20", "ü", "a%2Fb", "https:", "remote.example"})
	hostG := rapid.SampledFrom([]string{"example.com", "Example.COM", "a.b.example.org", "localhost", "127.0.0.1", "[::1]", "[::2]", "[::1]:8080", "[2001:db8::1]", "[2001:db8::2]", "xn--bcher-kva.example", "example.com:443", "example.com:80", "h"})
	qkey := rapid.SampledFrom([]string{"x", "y", "page", "max", "a b"})
	qval := rapid.SampledFrom([]string{"", "1", "2", "true", "a b", "%2F", "ü", "https://remote.example/actor", "http://x.example/?a=b"})
	type urlParts struct {
		scheme, host string
		segs         []string
		trailing     bool
		q            [][2]string
		frag         string
	}
	genParts := rapid.Custom(func(t *rapid.T) urlParts {
		p := urlParts{
			scheme: rapid.SampledFrom([]string{"http", "https", "HTTP", "Https"}).Draw(t, "scheme"),
			host:   hostG.Draw(t, "host"),
			segs:   rapid.SliceOfN(seg, 0, 4).Draw(t, "segs"),
		}
		p.trailing = rapid.Bool().Draw(t, "trailing")
		n := rapid.IntRange(0, 3).Draw(t, "nq")
		for i := 0; i < n; i++ {
			p.q = append(p.q, [2]string{qkey.Draw(t, "k"), qval.Draw(t, "v")})
		}
		p.frag = rapid.SampledFrom([]string{"", "", "#f", "#main"}).Draw(t, "frag")
		return p
	})
	render := func(p urlParts) string {
		s := p.scheme + "://" + p.host
		if len(p.segs) > 0 {
			s += "/" + strings.Join(p.segs, "/")
		}
		if p.trailing {
			s += "/"
		}
		if len(p.q) > 0 {
			var kv []string
			for _, e := range p.q {
				kv = append(kv, strings.ReplaceAll(e[0], " ", "+")+"="+strings.ReplaceAll(e[1], " ", "+"))
			}
			s += "?" + strings.Join(kv, "&")
		}
		return s + p.frag
	}
	mutate := func(t *rapid.T, p urlParts) (urlParts, string) {
		q := p
		q.segs = append([]string{}, p.segs...)
		q.q = append([][2]string{}, p.q...)
		var ms []string
		n := rapid.IntRange(1, 3).Draw(t, "nmut")
		for i := 0; i < n; i++ {
			m := rapid.SampledFrom([]string{"scheme", "hostcase", "host", "port", "trailing", "dotseg", "segcase", "seg", "dropseg", "qorder", "qval", "qadd", "qdrop", "qdup", "frag", "dslash"}).Draw(t, "mut")
			ms = append(ms, m)
			switch m {
			case "scheme":
				q.scheme = rapid.SampledFrom([]string{"http", "https", "HTTPS"}).Draw(t, "s2")
			case "hostcase":
				q.host = strings.ToUpper(q.host)
			case "host":
				q.host = hostG.Draw(t, "h2")
			case "port":
				if i := strings.LastIndex(q.host, ":"); i > strings.LastIndex(q.host, "]") {
					q.host = q.host[:i] + ":8181"
				} else {
					q.host += ":8080"
				}
			case "trailing":
				q.trailing = !q.trailing
			case "dotseg":
				i := rapid.IntRange(0, len(q.segs)).Draw(t, "at")
				ins := rapid.SampledFrom([][]string{{"."}, {"zz", ".."}}).Draw(t, "ins")
				q.segs = append(q.segs[:i:i], append(append([]string{}, ins...), q.segs[i:]...)...)
			case "dslash":
				if len(q.segs) > 0 {
					i := rapid.IntRange(0, len(q.segs)-1).Draw(t, "at")
					q.segs = append(q.segs[:i:i], append([]string{""}, q.segs[i:]...)...)
				}
			case "segcase":
				if len(q.segs) > 0 {
					i := rapid.IntRange(0, len(q.segs)-1).Draw(t, "at")
					q.segs[i] = strings.ToUpper(q.segs[i])
				}
			case "seg":
				if len(q.segs) > 0 {
					i := rapid.IntRange(0, len(q.segs)-1).Draw(t, "at")
					q.segs[i] = seg.Draw(t, "seg2")
				}
			case "dropseg":
				if len(q.segs) > 0 {
					q.segs = q.segs[:len(q.segs)-1]
				}
			case "qorder":
				if len(q.q) > 1 {
					q.q[0], q.q[len(q.q)-1] = q.q[len(q.q)-1], q.q[0]
				}
			case "qval":
				if len(q.q) > 0 {
					i := rapid.IntRange(0, len(q.q)-1).Draw(t, "at")
					q.q[i][1] = qval.Draw(t, "v2")
				}
			case "qadd":
				q.q = append(q.q, [2]string{qkey.Draw(t, "k2"), qval.Draw(t, "v2")})
			case "qdrop":
				if len(q.q) > 0 {
					q.q = q.q[1:]
				}
			case "qdup":
				if len(q.q) > 0 {
					q.q = append(q.q, q.q[0])
				}
			case "frag":
				q.frag = rapid.SampledFrom([]string{"", "#other"}).Draw(t, "f2")
			}
		}
		sort.Strings(ms)
		return q, strings.Join(ms, "+")
	}
	hasRepeatedKey := func(p urlParts) bool {
		seen := map[string]bool{}
		for _, e := range p.q {
			if seen[e[0]] {
				return true
			}
			seen[e[0]] = true
		}
		return false
	}
	r.Rapid(t, "random", r.Pick(20000, 100000), func(t *rapid.T) {
		pa := genParts.Draw(t, "a")
		pb, muts := mutate(t, pa)
		a, b := render(pa), render(pb)
		var bad []string
		detail := ""
		nt := false
		for _, cs := range []bool{false, true} {
			want := oracle.EquivIRI(a, b, cs)
			if a != b && want {
				nt = true
			}
			for _, pr := range [][2]string{{a, b}, {b, a}} {
				var got bool
				pi := ev.Safe(func() { got = ap.IRI(pr[0]).Equals(ap.IRI(pr[1]), cs) })
				if pi != nil {
					bad = append(bad, "iri panic@"+pi.Frame)
					detail = pi.Value
					continue
				}
				if got != want {
					cls := "plain"
					if hasRepeatedKey(pa) || hasRepeatedKey(pb) {
						cls = "query-repeated-key"
					}
					w := "ne"
					if want {
						w = "eq"
					}
					bad = append(bad, fmt.Sprintf("iri random %s want=%s", cls, w))
					detail = fmt.Sprintf("IRI(%q).Equals(%q, %v) = %v, reference says %v (mutations %s)", pr[0], pr[1], cs, got, want, muts)
				}
			}
		}
		canon := a + " " + b
		r.Case(canon, nt || strings.Count(muts, "+") == 0 && a != b, "random muts="+muts)
		r.Sample(canon, map[string]interface{}{"layer": "random", "a": a, "b": b, "mutations": muts, "equivalent_ignoring_scheme": oracle.EquivIRI(a, b, false)})
		if unk := r.Unknown(bad); len(unk) > 0 {
			r.Pending("random", unk[0], detail, map[string]interface{}{"a": a, "b": b})
			t.Fatalf("%s: %s", unk[0], detail)
		}
	})

	// ---- partial references: strings that parse as URLs but lack a scheme or a host (network-path "//host/path", "host/path",
	// "/path?query", "scheme:path"), paired with each other and with the absolute URLs they were cut from: reflexive and symmetric ----
	if r.WantLayer("partials", true) {
		var strs []string
		for _, u := range []string{"http://example.com/a", "https://example.com/a/", "http://example.com:8080/a/b?x=1", "https://EXAMPLE.com/A/../b?y=2&x=1#f", "http://example.com", "http://example.com/?x=1&x=2", "https://[::1]:8080/x"} {
			rest := u[strings.Index(u, "://")+3:]
			path := "/"
			if i := strings.Index(rest, "/"); i >= 0 {
				path = rest[i:]
			}
			strs = append(strs, u, "//"+rest, rest, path, u[:strings.Index(u, "://")]+":"+path, u[:strings.Index(u, "://")]+":"+rest, "//"+rest+"/", " "+u, u+" ", strings.ToUpper("//"+rest))
		}
		cells := 0
		for i, a := range strs {
			for j, b := range strs {
				for _, cs := range []bool{false, true} {
					cell := fmt.Sprintf("partials %q %q %v", a, b, cs)
					if !r.WantCell(cell) {
						continue
					}
					cells++
					var rab, rba, raa bool
					pi := ev.Safe(func() {
						raa = ap.IRI(a).Equals(ap.IRI(a), cs)
						rab = ap.IRI(a).Equals(ap.IRI(b), cs)
						rba = ap.IRI(b).Equals(ap.IRI(a), cs)
					})
					r.Case(cell, a != b, "partials")
					if (i*len(strs)+j)%1999 == 0 {
						r.Sample(cell, map[string]interface{}{"layer": "partials", "a": a, "b": b, "checkScheme": cs, "a==b": rab})
					}
					switch {
					case pi != nil:
						r.Report("partials", cell, "iri panic@"+pi.Frame, pi.Value, map[string]interface{}{"a": a, "b": b, "checkScheme": cs})
					case !raa:
						r.Report("partials", cell, "iri strings reflexive", fmt.Sprintf("IRI(%q).Equals(itself, %v) = false", a, cs), map[string]interface{}{"a": a, "checkScheme": cs})
					case rab != rba:
						r.Report("partials", cell, "iri strings symmetric", fmt.Sprintf("IRI(%q).Equals(%q, %v) = %v but the converse = %v", a, b, cs, rab, rba), map[string]interface{}{"a": a, "b": b, "checkScheme": cs})
					}
				}
			}
		}
		r.Cells(len(strs)*len(strs)*2, cells)
		r.Exhaustive("partials", !r.Replaying())
	}

	// ---- arbitrary strings: reflexive and symmetric ----
	hostile := []string{"", "-", "#", "#x", "://", "http://", "http:///a", "HTTP://H", "http://h", "a b", "\x00", "%zz", "http://h/%zz", "http://[::1", "mailto:a@b", "urn:x:y", "//h/p", "?a=1", "http://h?a=1;b=2", "ǅ", "ǆ", "ß", "SS", "K", "k", "http://ǅ/", "http://ǆ/"}
	strG := rapid.OneOf(rapid.SampledFrom(hostile), rapid.String(), rapid.StringOfN(rapid.RuneFrom([]rune("htp:/#?=&.%aA1 -")), 0, 24, -1))
	r.Rapid(t, "strings", r.Pick(20000, 100000), func(t *rapid.T) {
		a := strG.Draw(t, "a")
		b := a
		switch rapid.IntRange(0, 3).Draw(t, "how") {
		case 0:
			b = strG.Draw(t, "b")
		case 1:
			b = strings.ToUpper(a)
		case 2:
			b = a + rapid.SampledFrom([]string{"/", "#f", "?", "?x=1", " "}).Draw(t, "suffix")
		}
		cs := rapid.Bool().Draw(t, "cs")
		var bad []string
		detail := ""
		var rab, rba, raa bool
		pi := ev.Safe(func() {
			raa = ap.IRI(a).Equals(ap.IRI(a), cs)
			rab = ap.IRI(a).Equals(ap.IRI(b), cs)
			rba = ap.IRI(b).Equals(ap.IRI(a), cs)
		})
		switch {
		case pi != nil:
			bad = append(bad, "iri panic@"+pi.Frame)
			detail = pi.Value
		case !raa:
			bad = append(bad, "iri strings reflexive")
			detail = fmt.Sprintf("IRI(%q).Equals(itself, %v) = false", a, cs)
		case rab != rba:
			bad = append(bad, "iri strings symmetric")
			detail = fmt.Sprintf("IRI(%q).Equals(%q, %v) = %v but the converse = %v", a, b, cs, rab, rba)
		}
		canon := fmt.Sprintf("%q %q %v", a, b, cs)
		r.Case(canon, a != b && len(a) > 0, "strings")
		if unk := r.Unknown(bad); len(unk) > 0 {
			r.Pending("strings", unk[0], detail, map[string]interface{}{"a": a, "b": b, "checkScheme": cs})
			t.Fatalf("%s: %s", unk[0], detail)
		}
	})

	// ---- membership on IRI lists agrees with Equals ----
	r.Rapid(t, "lists", r.Pick(5000, 30000), func(t *rapid.T) {
		n := rapid.IntRange(0, 6).Draw(t, "n")
		var l ap.IRIs
		var ls []string
		for i := 0; i < n; i++ {
			s := render(genParts.Draw(t, "member"))
			l = append(l, ap.IRI(s))
			ls = append(ls, s)
		}
		var x string
		if n > 0 && rapid.Bool().Draw(t, "fromlist") {
			pm, _ := mutate(t, genParts.Draw(t, "base"))
			_ = pm
			x = ls[rapid.IntRange(0, n-1).Draw(t, "idx")]
			if rapid.Bool().Draw(t, "variant") {
				x = strings.Replace(x, "://", "://", 1)
				if strings.HasPrefix(x, "http://") {
					x = "https://" + strings.TrimPrefix(x, "http://")
				}
				x += "#frag"
			}
		} else {
			x = render(genParts.Draw(t, "x"))
		}
		want := false
		for _, y := range ls {
			if oracle.EquivIRI(x, y, false) {
				want = true
			}
		}
		var got bool
		pi := ev.Safe(func() { got = l.Contains(ap.IRI(x)) })
		var bad []string
		detail := ""
		if pi != nil {
			bad = append(bad, "iri panic@"+pi.Frame)
			detail = pi.Value
		} else if got != want {
			// attribute to the list operation only when Equals itself agrees with the reference on every member
			viaEquals := false
			for _, y := range ls {
				if ap.IRI(x).Equals(ap.IRI(y), false) {
					viaEquals = true
				}
			}
			if viaEquals == want {
				bad = append(bad, "iri list contains")
			} else {
				bad = append(bad, "iri list equals-disagrees-with-reference")
			}
			detail = fmt.Sprintf("IRIs(%q).Contains(%q) = %v, want %v", ls, x, got, want)
		}
		canon := fmt.Sprintf("%q %q", ls, x)
		r.Case(canon, n >= 2 && want, "lists")
		if unk := r.Unknown(bad); len(unk) > 0 {
			r.Pending("lists", unk[0], detail, map[string]interface{}{"list": ls, "x": x})
			t.Fatalf("%s: %s", unk[0], detail)
		}
	})
}

// c14FuzzOne checks what the property claims for arbitrary strings: IRI equality never panics, is reflexive and symmetric
// (both checkScheme values), and membership in an IRI list agrees with it; when both strings are plain absolute URLs of the
// grid's shape (scheme://host[:port]/path?query#fragment over the grid's character set) the reference normaliser decides too.
func c14FuzzOne(a, b string) (ds []keyed) {
	for _, cs := range []bool{false, true} {
		var ab, ba, aa, bb bool
		pi := ev.Safe(func() {
			ab, ba = ap.IRI(a).Equals(ap.IRI(b), cs), ap.IRI(b).Equals(ap.IRI(a), cs)
			aa, bb = ap.IRI(a).Equals(ap.IRI(a), cs), ap.IRI(b).Equals(ap.IRI(b), cs)
		})
		if pi != nil {
			return []keyed{{"iri panic@" + pi.Frame, fmt.Sprintf("Equals(%q, %q, %v): %s", a, b, cs, pi.Value)}}
		}
		if !aa || !bb {
			ds = append(ds, keyed{"iri strings reflexive", fmt.Sprintf("IRI(%q).Equals(itself, %v) = %v, IRI(%q).Equals(itself) = %v", a, cs, aa, b, bb)})
		}
		if ab != ba {
			ds = append(ds, keyed{"iri strings symmetric", fmt.Sprintf("IRI(%q).Equals(%q, %v) = %v but the converse is %v", a, b, cs, ab, ba)})
		}
		if c14Plain.MatchString(a) && c14Plain.MatchString(b) {
			if want := oracle.EquivIRI(a, b, cs); ab != want {
				w := "ne"
				if want {
					w = "eq"
				}
				ds = append(ds, keyed{"iri fuzz plain want=" + w, fmt.Sprintf("IRI(%q).Equals(%q, %v) = %v, reference says %v", a, b, cs, ab, want)})
			}
		}
	}
	var in bool
	pi := ev.Safe(func() { in = ap.IRIs{ap.IRI(b)}.Contains(ap.IRI(a)) })
	if pi != nil {
		return append(ds, keyed{"iri panic@" + pi.Frame, pi.Value})
	}
	// the empty IRI and the nil IRI "-" are "nothing" (C20): a list does not contain them
	if want := ap.IRI(b).Equals(ap.IRI(a), false); in != want && a != "" && b != "" && a != string(ap.NilIRI) && b != string(ap.NilIRI) {
		ds = append(ds, keyed{"iri lists membership", fmt.Sprintf("IRIs{%q}.Contains(%q) = %v, Equals says %v", b, a, in, want)})
	}
	return ds
}

// c14Plain: absolute URLs over the grid's alphabet: lower/upper letters, digits, '.', '-', '_', '~' in host and path, an optional
// port, dot segments and repeated slashes allowed, a query of key=value pairs in lower case letters and digits, an optional fragment.
var c14Plain = regexp.MustCompile(`^(?i:https?)://[A-Za-z0-9.-]+(:[0-9]{1,5})?(/[A-Za-z0-9._~/-]*)?(\?[a-z0-9]+=[a-z0-9]*(&[a-z0-9]+=[a-z0-9]*)*)?(#[A-Za-z0-9]*)?$`)

// FuzzC14 is the native coverage-guided target (thorough tier) over pairs of strings.
func FuzzC14(f *testing.F) {
	g := c14Grid()
	for i := 0; i < len(g); i += 97 {
		f.Add(g[i].s, g[(i*31+7)%len(g)].s)
	}
	for _, s := range []string{"", "-", "not a url", "http://", "://x", "https://[::1]:8080/x", "https://example.com/%zz", "mailto:a@b", "/relative/path", "HTTPS://EXAMPLE.COM/A/../B/?x=1#f", "https://example.com/a?x=1&x=2", "\x00", "https://exa mple.com/"} {
		f.Add(s, "https://example.com/a")
		f.Add(s, s+"/")
	}
	known := ev.LoadFindings("C14")
	f.Fuzz(func(t *testing.T, a, b string) {
		if len(a) > 1<<10 || len(b) > 1<<10 {
			return
		}
		for _, d := range c14FuzzOne(a, b) {
			if known.Peek(d.Key) {
				continue
			}
			t.Fatalf("VIOLATION-KEY property=C14 key=%q detail=%q", d.Key, d.Detail)
		}
	})
}
