package props

import (
	"encoding/json"
	"fmt"
	"reflect"
	"regexp"
	"strings"
	"testing"

	ap "github.com/go-ap/activitypub"
	"pgregory.net/rapid"
	"verif/harness/ev"
	"verif/harness/vocab"
)

// C11 — Clean() leaves no private recipients in what gets serialised.

var (
	c11Types    = []string{"Object", "Actor", "Activity", "IntransitiveActivity", "Question", "Collection", "CollectionPage", "OrderedCollection", "OrderedCollectionPage", "Place", "Profile", "Relationship", "Tombstone"}
	c11Walked   = []string{"Audience", "Attachment", "Icon", "Image", "Context", "Generator", "AttributedTo", "Preview", "Tag"}
	c11Activity = []string{"Object", "Actor", "Target"}
	c11Decoys   = []string{"InReplyTo", "Location", "Replies", "URL", "Likes", "Shares", "To", "CC", "Result", "Origin", "Instrument", "Items", "OrderedItems", "First", "OneOf", "Describes", "Subject", "Inbox"}
)

// c11TypesX: the 13 types with their default names, plus the Activity struct carrying the intransitive names
var c11TypesX = append(append([]string{}, c11Types...), "Activity[Travel]", "Activity[Arrive]", "Activity[Question]")

type c11Node struct {
	v     reflect.Value // addressable struct
	path  string
	depth int
}

// c11WalkRef is the walk rule written from the statement: the value itself, then objects embedded by pointer in the walked
// properties (for an activity also object, actor and target), recursively and through lists.
var c11NilToNil = regexp.MustCompile(`: \(\*\w+\)nil became nil$`)

func c11WalkRef(it ap.Item, path string, depth int, out *[]c11Node) {
	if it == nil {
		return
	}
	if l, ok := it.(ap.ItemCollection); ok {
		for i, m := range l {
			c11WalkRef(m, fmt.Sprintf("%s[%d]", path, i), depth, out)
		}
		return
	}
	rv := reflect.ValueOf(it)
	if rv.Kind() != reflect.Ptr || rv.IsNil() || rv.Elem().Kind() != reflect.Struct || rv.Elem().Type().Name() == "Link" {
		return
	}
	sv := rv.Elem()
	*out = append(*out, c11Node{sv, path, depth})
	names := c11Walked
	if sv.Type().Name() == "Activity" {
		names = append(append([]string{}, c11Walked...), c11Activity...)
	}
	for _, n := range names {
		f := sv.FieldByName(n)
		if !f.IsValid() {
			continue
		}
		switch f.Kind() {
		case reflect.Interface:
			if !f.IsNil() {
				c11WalkRef(f.Interface().(ap.Item), path+"."+n, depth+1, out)
			}
		case reflect.Slice:
			c11WalkRef(f.Interface().(ap.ItemCollection), path+"."+n, depth+1, out)
		}
	}
}

// c11JSONWalk follows the same positions in the parsed JSON, guided by the Go value (value-form objects are not on the walk).
func c11JSONWalk(it ap.Item, js interface{}, path string, bad *[]string) {
	if it == nil || js == nil {
		return
	}
	if l, ok := it.(ap.ItemCollection); ok {
		arr, isArr := js.([]interface{})
		if !isArr {
			if len(l) == 1 {
				c11JSONWalk(l[0], js, path+"[0]", bad)
			}
			return
		}
		if len(arr) != len(l) {
			return // members that serialise to nothing: alignment unknown, the Go-side check still applies
		}
		for i := range l {
			c11JSONWalk(l[i], arr[i], fmt.Sprintf("%s[%d]", path, i), bad)
		}
		return
	}
	rv := reflect.ValueOf(it)
	if rv.Kind() != reflect.Ptr || rv.IsNil() || rv.Elem().Kind() != reflect.Struct || rv.Elem().Type().Name() == "Link" {
		return
	}
	obj, ok := js.(map[string]interface{})
	if !ok {
		return
	}
	for _, k := range []string{"bto", "bcc"} {
		if _, has := obj[k]; has {
			*bad = append(*bad, path+"."+k)
		}
	}
	sv := rv.Elem()
	names := c11Walked
	if sv.Type().Name() == "Activity" {
		names = append(append([]string{}, c11Walked...), c11Activity...)
	}
	for _, n := range names {
		f, ok := vocab.FieldByName(sv.Type(), n)
		if !ok {
			continue
		}
		fv := sv.Field(f.Index)
		sub, has := obj[f.Term]
		if !has {
			continue
		}
		switch fv.Kind() {
		case reflect.Interface:
			if !fv.IsNil() {
				c11JSONWalk(fv.Interface().(ap.Item), sub, path+"."+n, bad)
			}
		case reflect.Slice:
			c11JSONWalk(fv.Interface().(ap.ItemCollection), sub, path+"."+n, bad)
		}
	}
}

func c11PosOf(path string) string {
	// position class of a walked node: the property names along the path, indexes dropped
	p := path
	for {
		i := strings.Index(p, "[")
		if i < 0 {
			break
		}
		j := strings.Index(p[i:], "]")
		p = p[:i] + p[i+j+1:]
	}
	return strings.TrimPrefix(p, ".")
}

func c11Check(x ap.Item) (ds []keyed, plantedDeep int, jsonChecked bool) {
	gt := vocab.GoTypeName(x)
	snap := vocab.CloneItem(x)
	// where were private recipients planted, per the reference walk on the snapshot
	var refNodes []c11Node
	c11WalkRef(snap, "", 0, &refNodes)
	for _, n := range refNodes {
		if n.depth >= 1 && (n.v.FieldByName("Bto").Len() > 0 || n.v.FieldByName("BCC").Len() > 0) {
			plantedDeep++
		}
	}
	pi := evSafe(func() { x.(interface{ Clean() }).Clean() })
	if pi != nil {
		return []keyed{{"clean " + gt + " panic@" + pi.Frame, pi.Value}}, plantedDeep, false
	}
	// (1) Go value: no private recipients along the walk
	var nodes []c11Node
	c11WalkRef(x, "", 0, &nodes)
	for _, n := range nodes {
		for _, fn := range []string{"Bto", "BCC"} {
			if n.v.FieldByName(fn).Len() > 0 {
				ds = append(ds, keyed{fmt.Sprintf("clean %s %s.%s", gt, c11PosOf(n.path), fn), fmt.Sprintf("after Clean() %s%s.%s still holds %s", gt, n.path, fn, vocab.Dump(n.v.FieldByName(fn).Interface()))})
			}
		}
	}
	// (2) everything else exactly as it was: normalise bto/bcc along the walk to nil on both sides, then compare bit for bit
	if len(ds) == 0 {
		after := vocab.CloneItem(x)
		for _, side := range []ap.Item{snap, after} {
			var ns []c11Node
			c11WalkRef(side, "", 0, &ns)
			for _, n := range ns {
				for _, fn := range []string{"Bto", "BCC"} {
					f := n.v.FieldByName(fn)
					f.Set(reflect.Zero(f.Type()))
				}
			}
		}
		d := vocab.ContentDiff(snap, after)
		// a nil pointer that became the nil item is nothing that became nothing (Clean() stores what CleanRecipients returns)
		kept := d[:0]
		for _, line := range d {
			if !c11NilToNil.MatchString(line) {
				kept = append(kept, line)
			}
		}
		if d = kept; len(d) > 0 {
			ds = append(ds, keyed{"clean " + gt + " other-property-changed", "Clean() changed something besides bto/bcc along the walk: " + strings.Join(d, "; ")})
		}
	}
	// (3) what gets serialised
	var b []byte
	var err error
	if pi := evSafe(func() { b, err = ap.MarshalJSON(x) }); pi != nil || err != nil {
		return ds, plantedDeep, false
	}
	var js interface{}
	if json.Unmarshal(b, &js) != nil {
		return ds, plantedDeep, false // validity of the output is C02's subject
	}
	var bad []string
	c11JSONWalk(x, js, "", &bad)
	for _, p := range bad {
		ds = append(ds, keyed{fmt.Sprintf("clean %s json %s", gt, c11PosOf(p)), "the serialised value still shows private recipients at " + p + ": " + clipBytes(b, 400)})
	}
	return ds, plantedDeep, true
}

func c11Priv(c *vocab.Counter) (ap.ItemCollection, ap.ItemCollection) {
	return ap.ItemCollection{c.ID("secret-bto")}, ap.ItemCollection{c.ID("secret-bcc"), &ap.Actor{ID: c.ID("hidden"), Type: ap.PersonType}}
}

func TestC11(t *testing.T) {
	r := ev.Open(t, "C11")
	defer r.Close(t)
	r.Rule("positions: every type implementing Clean() x every walked position (audience, attachment, icon, image, context, generator, attributedTo, preview, tag; object, actor, target for activities) " +
		"and 18 off-walk decoy positions x {single embedded object, list} x embedded type {Object, Actor, Activity, Question, Collection, Place} x nesting depth 1..2 (at depth 1 also with the embedded value carrying its owner's id, no id, and sitting in a list between nil pointers and nil entries), with bto/bcc planted at every level; " +
		"random: random values with bto/bcc planted on ~60% of all struct nodes anywhere. Oracle: reference walk from the statement - along it bto/bcc are empty on the Go value and absent from the parsed " +
		"MarshalJSON output; with bto/bcc along the walk normalised, the value is bit-identical to its snapshot (decoys keep their private recipients). " +
		"non-trivial = private recipients planted at depth >= 1 on the walk; distinct by canonical dump")
	r.Assume("objects embedded as struct values (not pointers) are not on the walk, as the statement says \"embedded by pointer\"")

	embedTypes := []string{"Object", "Actor", "Activity", "Question", "Collection", "Place"}
	mkNode := func(c *vocab.Counter, gt string) (ap.Item, reflect.Value) {
		// "Activity[Travel]": the Activity struct carrying another vocabulary name (the struct decides what is walked, not the name)
		typ := ""
		if i := strings.Index(gt, "["); i > 0 {
			gt, typ = gt[:i], strings.TrimSuffix(gt[i+1:], "]")
		}
		p := reflect.New(vocab.StructType(gt))
		p.Elem().FieldByName("ID").SetString(string(c.ID(strings.ToLower(gt))))
		p.Elem().FieldByName("Type").SetString(string(vocab.DefaultType[gt]))
		if typ != "" {
			p.Elem().FieldByName("Type").SetString(typ)
		}
		bto, bcc := c11Priv(c)
		p.Elem().FieldByName("Bto").Set(reflect.ValueOf(bto))
		p.Elem().FieldByName("BCC").Set(reflect.ValueOf(bcc))
		p.Elem().FieldByName("To").Set(reflect.ValueOf(ap.ItemCollection{c.ID("public-to")}))
		return p.Interface().(ap.Item), p.Elem()
	}
	setPos := func(v reflect.Value, pos string, it ap.Item, asList bool) bool {
		f := v.FieldByName(pos)
		if !f.IsValid() {
			return false
		}
		if f.Kind() == reflect.Slice {
			f.Set(reflect.ValueOf(ap.ItemCollection{ap.IRI("https://example.com/other"), it}))
			return true
		}
		if asList {
			var l ap.Item = ap.ItemCollection{it, ap.IRI("https://example.com/other")}
			f.Set(reflect.ValueOf(&l).Elem())
		} else {
			f.Set(reflect.ValueOf(&it).Elem())
		}
		return true
	}

	if r.WantLayer("positions", true) {
		total, done := 0, 0
		positions := append(append(append([]string{}, c11Walked...), c11Activity...), c11Decoys...)
		for _, gt := range c11TypesX {
			for _, pos := range positions {
				for _, asList := range []bool{false, true} {
					for _, et := range embedTypes {
						for depth := 1; depth <= 5; depth++ {
							// depth 3 and 4 are depth 1 again with another identity of the embedded value: the id of the value that embeds it (a copy
							// of the owner inside the owner, e.g. an actor attributed to itself), and no id at all
							policy := ""
							if depth > 2 {
								if et != "Object" && et != "Actor" {
									continue
								}
								policy = []string{"owner-id", "no-id", "behind-nils"}[depth-3]
								if policy == "behind-nils" && !asList {
									continue
								}
							}
							c := &vocab.Counter{}
							top, tv := mkNode(c, gt)
							inner, iv := mkNode(c, et)
							switch policy {
							case "owner-id":
								iv.FieldByName("ID").SetString(tv.FieldByName("ID").String())
							case "no-id":
								iv.FieldByName("ID").SetString("")
							}
							if !setPos(tv, pos, inner, asList) {
								continue
							}
							if policy == "behind-nils" {
								// the embedded value sits in a list behind a nil pointer and a nil entry: nothing to clean there, and no reason to stop
								f := tv.FieldByName(pos)
								l := ap.ItemCollection{(*ap.Actor)(nil), nil, inner, (*ap.Object)(nil)}
								if f.Kind() == reflect.Slice {
									f.Set(reflect.ValueOf(l))
								} else {
									var li ap.Item = l
									f.Set(reflect.ValueOf(&li).Elem())
								}
							}
							if depth == 2 {
								deep, _ := mkNode(c, "Object")
								if !setPos(iv, "Attachment", deep, false) {
									continue
								}
								decoy, _ := mkNode(c, "Object")
								setPos(iv, "InReplyTo", decoy, false)
							}
							total++
							cell := fmt.Sprintf("%s.%s list=%v embed=%s depth=%d", gt, pos, asList, et, depth)
							if policy != "" {
								cell = fmt.Sprintf("%s.%s list=%v embed=%s depth=1 %s", gt, pos, asList, et, policy)
							}
							if !r.WantCell(cell) {
								continue
							}
							done++
							dump := vocab.Dump(top)
							ds, planted, js := c11Check(top)
							lbl := "positions off-walk"
							if planted > 0 {
								lbl = "positions on-walk"
							}
							r.Case(cell+dump, planted > 0, lbl, fmt.Sprintf("positions json-checked=%v", js))
							if done%499 == 0 {
								r.Sample(cell, map[string]interface{}{"layer": "positions", "cell": cell, "value": dump})
							}
							reportAll(r, "positions", cell, ds, dump)
						}
					}
				}
			}
		}
		r.Cells(total, done)
		r.Exhaustive("positions", !r.Replaying())
	}

	// the state the value's own bto/bcc are in must not matter: unset, empty but not nil (what an earlier Clean() leaves behind), one of
	// each, populated; and the sequence Clean(), attach an embedded object with private recipients, Clean() again
	if r.WantLayer("states", true) {
		total, done := 0, 0
		states := []string{"nil/nil", "empty/empty", "empty/nil", "nil/empty", "populated/empty", "cleaned-before"}
		for _, gt := range c11TypesX {
			walked := append([]string{}, c11Walked...)
			if strings.HasPrefix(gt, "Activity") {
				walked = append(walked, c11Activity...)
			}
			for _, pos := range walked {
				for _, st := range states {
					c := &vocab.Counter{}
					top, tv := mkNode(c, gt)
					inner, _ := mkNode(c, "Object")
					switch st {
					case "nil/nil":
						tv.FieldByName("Bto").Set(reflect.Zero(tv.FieldByName("Bto").Type()))
						tv.FieldByName("BCC").Set(reflect.Zero(tv.FieldByName("BCC").Type()))
					case "empty/empty":
						tv.FieldByName("Bto").Set(reflect.ValueOf(ap.ItemCollection{}))
						tv.FieldByName("BCC").Set(reflect.ValueOf(ap.ItemCollection{}))
					case "empty/nil":
						tv.FieldByName("Bto").Set(reflect.ValueOf(ap.ItemCollection{}))
						tv.FieldByName("BCC").Set(reflect.Zero(tv.FieldByName("BCC").Type()))
					case "nil/empty":
						tv.FieldByName("Bto").Set(reflect.Zero(tv.FieldByName("Bto").Type()))
						tv.FieldByName("BCC").Set(reflect.ValueOf(ap.ItemCollection{}))
					case "populated/empty":
						tv.FieldByName("BCC").Set(reflect.ValueOf(ap.ItemCollection{}))
					case "cleaned-before":
						if pi := evSafe(func() { top.(interface{ Clean() }).Clean() }); pi != nil {
							continue
						}
					}
					if !setPos(tv, pos, inner, false) {
						continue
					}
					total++
					cell := fmt.Sprintf("%s.%s own-private=%s", gt, pos, st)
					if !r.WantCell(cell) {
						continue
					}
					done++
					dump := vocab.Dump(top)
					ds, planted, _ := c11Check(top)
					r.Case(cell+dump, planted > 0, "states "+st)
					if done%97 == 0 {
						r.Sample(cell, map[string]interface{}{"layer": "states", "cell": cell, "value": dump})
					}
					reportAll(r, "states", cell, ds, dump)
				}
			}
		}
		r.Cells(total, done)
		r.Exhaustive("states", !r.Replaying())
	}

	// the same item mentioned at two walked positions (a self-Delete: the actor is also the object; an icon that is also the
	// image): once as a bare IRI or as a clean embedded copy, once embedded with private recipients - both must end up clean
	if r.WantLayer("same-id", true) {
		total, done := 0, 0
		for _, gt := range c11TypesX {
			walked := append([]string{}, c11Walked...)
			if strings.HasPrefix(gt, "Activity") {
				walked = append(walked, c11Activity...)
			}
			for _, p1 := range walked {
				for _, p2 := range walked {
					if p1 == p2 {
						continue
					}
					for _, firstForm := range []string{"iri", "clean-copy"} {
						c := &vocab.Counter{}
						top, tv := mkNode(c, gt)
						shared := c.ID("shared")
						second, sv := mkNode(c, "Actor")
						sv.FieldByName("ID").SetString(string(shared))
						var first ap.Item = shared
						if firstForm == "clean-copy" {
							cp := vocab.CloneItem(second)
							cv := reflect.ValueOf(cp).Elem()
							cv.FieldByName("Bto").Set(reflect.Zero(cv.FieldByName("Bto").Type()))
							cv.FieldByName("BCC").Set(reflect.Zero(cv.FieldByName("BCC").Type()))
							first = cp
						}
						if !setPos(tv, p1, first, false) || !setPos(tv, p2, second, false) {
							continue
						}
						total++
						cell := fmt.Sprintf("%s %s=%s(shared id) %s=embedded with private recipients", gt, p1, firstForm, p2)
						if !r.WantCell(cell) {
							continue
						}
						done++
						dump := vocab.Dump(top)
						ds, planted, _ := c11Check(top)
						r.Case(cell+dump, planted > 0, "same-id "+firstForm)
						if done%397 == 0 {
							r.Sample(cell, map[string]interface{}{"layer": "same-id", "cell": cell, "value": dump})
						}
						reportAll(r, "same-id", cell, ds, dump)
					}
				}
			}
		}
		r.Cells(total, done)
		r.Exhaustive("same-id", !r.Replaying())
	}

	r.Rapid(t, "random", r.Pick(2000, 20000), func(t *rapid.T) {
		gt := rapid.SampledFrom(c11Types).Draw(t, "gotype")
		depth := rapid.IntRange(1, 3).Draw(t, "depth")
		g := vocab.NewGen(t, vocab.Opts{MaxDepth: depth, Gob: true, ValueForms: true, MaxNodes: 16, Density: []int{8, 15, 30, 60}})
		x := g.Value(gt, depth, false)
		// plant private recipients on ~60% of all struct nodes, wherever they are
		vocab.Walk(x, 0, func(path string, d int, node reflect.Value) {
			if !node.CanSet() || node.Type().Name() == "Link" {
				return
			}
			if rapid.IntRange(0, 9).Draw(t, "plant") < 6 {
				node.FieldByName("Bto").Set(reflect.ValueOf(ap.ItemCollection{g.ID("secret")}))
			}
			if rapid.IntRange(0, 9).Draw(t, "plant") < 6 {
				node.FieldByName("BCC").Set(reflect.ValueOf(ap.ItemCollection{g.ID("secret"), g.ID("secret")}))
			}
		})
		dump := vocab.Dump(x)
		ds, planted, js := c11Check(x)
		r.Case(dump, planted > 0, "random type="+gt, fmt.Sprintf("random depth=%d", depth), fmt.Sprintf("random json-checked=%v", js), fmt.Sprintf("random planted-on-walk>0=%v", planted > 0))
		r.Sample(dump, map[string]interface{}{"layer": "random", "value": dump})
		failUnknown(r, t, "random", ds, map[string]interface{}{"value": dump})
	})
}
