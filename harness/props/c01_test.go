package props

import (
	"encoding/json"
	"fmt"
	"reflect"
	"strings"
	"testing"

	ap "github.com/go-ap/activitypub"

	"pgregory.net/rapid"
	"verif/harness/ev"
	"verif/harness/vocab"
)

// C01 — JSON encode->decode round trip preserves every vocabulary property.

var goTypeNames = func() []string {
	var out []string
	for _, st := range vocab.StructTypes {
		out = append(out, st.Name())
	}
	return out
}()

func TestC01(t *testing.T) {
	r := ev.Open(t, "C01")
	defer r.Close(t)
	r.Rule("cells: every struct type x field x admissible shape with id, type and that one field set (complete at depth 1), both entry pairs " +
		"(package MarshalJSON/UnmarshalJSON and <T>.MarshalJSON/(*T).UnmarshalJSON); everything: one value per type with every field set; " +
		"random: random field subsets with random shapes nested to the depth bound. Oracle: Diff(x, decode(encode(x))) under the JSON normal form + same concrete Go type. " +
		"helpers: the values an actor's endpoints and publicKey, language lists and IRI lists are made of, written and read back on their own through their MarshalJSON/UnmarshalJSON pair and through encoding/json " +
		"(Source is left out: its UnmarshalJSON reads the source member of the enclosing document; IRI and MimeType only with text that needs no JSON escape: their UnmarshalJSON takes text as it stands). " +
		"non-trivial = at least one property besides id and type is set on the root; distinct by canonical reflection dump of the value + entry pair")
	r.Assume("durations are whole seconds with |d| < 27 days (the xsd duration dependency mis-formats longer ones); floats are n/64 (exact in the writer's %f)")
	r.Assume("IRIs are absolute URLs, ids within one value are pairwise non-equivalent, multi-language maps use distinct real tags")
	r.Assume("a public key carries an id or key material (both encoders treat a key that only names an owner as no key)")
	runRoundTrips(t, r, "json-rt", []codec{codecJSONPkg, codecJSONTyped}, false, r.Pick(4000, 25000))

	// ---- helper types with their own MarshalJSON/UnmarshalJSON pair (the values an actor's endpoints and publicKey, an object's
	// source, an IRI list ... are made of), stored and read back on their own: through the method pair and through encoding/json ----
	if r.WantLayer("helpers", true) {
		total, done := 0, 0
		for _, h := range c01Helpers() {
			for vi, v := range h.values {
				for _, pair := range []string{"methods", "encoding/json"} {
					total++
					cell := fmt.Sprintf("%s #%d %s", h.name, vi, pair)
					if !r.WantCell(cell) {
						continue
					}
					done++
					key, detail := c01HelperRoundTrip(h.name, v, pair)
					r.Case(cell+" "+vocab.Dump(v), !reflect.ValueOf(v).IsZero(), "helpers "+h.name, "helpers pair="+pair)
					if done%11 == 0 {
						r.Sample(cell, map[string]interface{}{"layer": "helpers", "type": h.name, "pair": pair, "value": vocab.Dump(v)})
					}
					if key != "" {
						r.Report("helpers", cell, key, detail, map[string]interface{}{"type": h.name, "pair": pair, "value": vocab.Dump(v)})
					}
				}
			}
		}
		r.Cells(total, done)
		r.Exhaustive("helpers", !r.Replaying())
	}
}

func c01Helpers() []c03Helper {
	var iris, mimes, nlvs, irisL, eps, pks []interface{}
	// IRI and MimeType: their UnmarshalJSON takes the text as it stands (callers hand it already-decoded bytes, iri_test.go hands it unquoted
	// text), so only values whose JSON string form needs no escape are in this layer's domain, and encoding/json's HTML escaping of & is not
	for _, t := range []string{"https://example.com/a", "https://example.com/a?x=1#f", "https://example.com/ü/%20", "https://[::1]:8080/x"} {
		iris = append(iris, ap.IRI(t))
	}
	for _, t := range []string{"text/html", "text/html; charset=utf-8", "application/ld+json"} {
		mimes = append(mimes, ap.MimeType(t))
	}
	for _, t := range []string{"plain", "two words", "üñí €", "quo\"te", "back\\slash", "line\nbreak", "<b>html</b>", " lead and trail ", "{\"a\":1}"} {
		nlvs = append(nlvs, ap.NaturalLanguageValues{{Ref: ap.NilLangRef, Value: ap.Content(t)}},
			ap.NaturalLanguageValues{{Ref: "en", Value: ap.Content(t)}, {Ref: "fr", Value: ap.Content("autre " + t)}})
	}
	irisL = append(irisL, ap.IRIs{"https://example.com/1", "https://example.com/2"}, ap.IRIs{"https://example.com/1", "https://example.com/2", "https://example.com/1?x=1"})
	one := func(f string) ap.Endpoints {
		e := ap.Endpoints{}
		reflect.ValueOf(&e).Elem().FieldByName(f).Set(reflect.ValueOf(ap.IRI("https://example.com/endpoint/" + f)))
		return e
	}
	et := reflect.TypeOf(ap.Endpoints{})
	all := ap.Endpoints{}
	for i := 0; i < et.NumField(); i++ {
		eps = append(eps, one(et.Field(i).Name))
		reflect.ValueOf(&all).Elem().Field(i).Set(reflect.ValueOf(ap.IRI("https://example.com/endpoint/all/" + et.Field(i).Name)))
	}
	eps = append(eps, all)
	pks = append(pks, ap.PublicKey{ID: "https://example.com/a#main-key", Owner: "https://example.com/a", PublicKeyPem: "-----BEGIN PUBLIC KEY-----\nMIIB\n-----END PUBLIC KEY-----"},
		ap.PublicKey{ID: "https://example.com/k"}, ap.PublicKey{ID: "https://example.com/k", Owner: "https://example.com/o"}, ap.PublicKey{ID: "https://example.com/k", PublicKeyPem: "pem"})
	return []c03Helper{{"IRI", iris}, {"MimeType", mimes}, {"NaturalLanguageValues", nlvs}, {"IRIs", irisL}, {"Endpoints", eps}, {"PublicKey", pks}}
}

// c01HelperRoundTrip writes v through one entry pair and compares what is read back under the JSON normal form
// (unset == empty; a lone language-tagged string is outside the helper values used here).
func c01HelperRoundTrip(name string, v interface{}, pair string) (key, detail string) {
	fresh := reflect.New(reflect.TypeOf(v))
	var err error
	var b []byte
	stage := "encode"
	pi := evSafe(func() {
		switch pair {
		case "methods":
			b, err = v.(json.Marshaler).MarshalJSON()
			if err == nil {
				stage = "decode"
				err = fresh.Interface().(json.Unmarshaler).UnmarshalJSON(b)
			}
		case "encoding/json":
			b, err = json.Marshal(v)
			if err == nil {
				stage = "decode"
				err = json.Unmarshal(b, fresh.Interface())
			}
		}
	})
	if pi != nil {
		return fmt.Sprintf("json-helper %s %s panic@%s", name, pair, pi.Frame), pi.Value
	}
	if err != nil {
		return fmt.Sprintf("json-helper %s %s %s-error", name, pair, stage), fmt.Sprintf("%s of %s: %v (bytes %q)", stage, vocab.Dump(v), err, b)
	}
	got := fresh.Elem().Interface()
	if d := vocab.ContentDiff(c03NormEmpty(v), c03NormEmpty(got)); len(d) > 0 {
		return fmt.Sprintf("json-helper %s %s differs", name, pair), fmt.Sprintf("wrote %s as %s, read back %s: %s", vocab.Dump(v), b, vocab.Dump(got), strings.Join(d, "; "))
	}
	return "", ""
}

// runRoundTrips is the body shared by C01 (JSON) and C03 (gob): cells, everything and random layers.
func runRoundTrips(t *testing.T, r *ev.Rec, prefix string, codecs []codec, gobForm bool, randomChecks int) {

	if r.WantLayer("cells", true) {
		cells, unc := vocab.SingleCells(gobForm)
		cells = append(cells, vocab.AnonymousCells(gobForm)...)
		for _, u := range unc {
			r.Uncovered("UNCOVERED field " + u)
		}
		done := 0
		for _, c := range codecs {
			for _, cell := range cells {
				id := c.name + " " + cell.ID
				if !r.WantCell(id) {
					continue
				}
				done++
				ds, _ := roundTrip(c, cell.Value, prefix, cell.Type.Name()+"."+cell.Field.Name)
				canon := id + " " + vocab.Dump(cell.Value)
				r.Case(canon, true, "cells entry="+c.name, "cells kind="+string(cell.Field.Kind), "cells type="+cell.Type.Name())
				if done%97 == 0 {
					r.Sample(canon, map[string]interface{}{"layer": "cells", "entry": c.name, "cell": cell.ID, "value": vocab.Dump(cell.Value)})
				}
				reportAll(r, "cells", id, ds, map[string]interface{}{"entry": c.name, "cell": cell.ID, "value": vocab.Dump(cell.Value)})
			}
		}
		r.Cells(len(cells)*len(codecs), done)
		r.Exhaustive("cells", !r.Replaying())
	}
	// the text cells again with the package's configurable default language set to a real tag: the codecs write and read what the
	// value holds, whatever the convenience constructors are configured to use
	if r.WantLayer("default-lang", true) {
		cells, _ := vocab.SingleCells(gobForm)
		saved := ap.DefaultLang
		total, done := 0, 0
		for _, dl := range []ap.LangRef{"en", "fr"} {
			ap.DefaultLang = dl
			for _, c := range codecs {
				for _, cell := range cells {
					if cell.Field.Kind != vocab.KNLV {
						continue
					}
					total++
					id := fmt.Sprintf("DefaultLang=%s %s %s", dl, c.name, cell.ID)
					if !r.WantCell(id) {
						continue
					}
					done++
					ds, _ := roundTrip(c, cell.Value, prefix, cell.Type.Name()+"."+cell.Field.Name)
					for k := range ds {
						ds[k].Key += " default-lang"
					}
					r.Case(id, true, "default-lang")
					reportAll(r, "default-lang", id, ds, map[string]interface{}{"entry": c.name, "cell": cell.ID, "default_lang": string(dl)})
				}
			}
		}
		ap.DefaultLang = saved
		r.Cells(total, done)
		r.Exhaustive("default-lang", !r.Replaying())
	}
	// a value that holds everything its type can hold, with one property at a time set to something that says nothing (an empty
	// list, a language list without text, an empty endpoints value): nothing may go missing around it
	if r.WantLayer("one-empty", true) {
		total, done := 0, 0
		for _, c := range codecs {
			for _, st := range vocab.StructTypes {
				for _, f := range vocab.Fields(st) {
					var empties []reflect.Value
					switch f.Kind {
					case vocab.KItem:
						var it ap.Item = ap.ItemCollection{}
						empties = append(empties, reflect.ValueOf(&it).Elem())
					case vocab.KItems:
						empties = append(empties, reflect.ValueOf(ap.ItemCollection{}))
					case vocab.KNLV:
						empties = append(empties, reflect.ValueOf(ap.NaturalLanguageValues{}), reflect.ValueOf(ap.NaturalLanguageValues{{Ref: "en", Value: ap.Content("")}}))
					case vocab.KEndpoints:
						empties = append(empties, reflect.ValueOf(&ap.Endpoints{}))
					}
					for ei, e := range empties {
						// in the value that holds everything else, and in the one that holds nothing else but its id and type
						for _, base := range []string{"", " alone"} {
							total++
							id := fmt.Sprintf("%s %s.%s empty#%d%s", c.name, st.Name(), f.Name, ei, base)
							if !r.WantCell(id) {
								continue
							}
							done++
							x := vocab.Everything(st, gobForm)
							if base != "" {
								p := reflect.New(st)
								p.Elem().FieldByName("ID").SetString("https://example.com/alone")
								p.Elem().FieldByName("Type").SetString(string(vocab.DefaultType[st.Name()]))
								x = p.Interface().(ap.Item)
							}
							reflect.ValueOf(x).Elem().Field(f.Index).Set(e)
							ds, _ := roundTrip(c, x, prefix, st.Name()+"."+f.Name+"=empty")
							for k := range ds {
								ds[k].Key += " one-empty" + base
							}
							r.Case(id, true, "one-empty")
							reportAll(r, "one-empty", id, ds, map[string]interface{}{"entry": c.name, "value": vocab.Dump(x)})
						}
					}
				}
			}
		}
		r.Cells(total, done)
		r.Exhaustive("one-empty", !r.Replaying())
	}
	if r.WantLayer("everything", true) {
		for _, c := range codecs {
			for _, st := range vocab.StructTypes {
				// one every-field-set value per vocabulary type name of this Go type (the reader and writer tables switch on the name)
				for ti, tn := range vocab.NamesFor(st.Name()) {
					// the names take turns through the admissible shapes of every field
					id := c.name + " " + st.Name() + "[" + string(tn) + "]"
					if !r.WantCell(id) {
						continue
					}
					x := vocab.EverythingN(st, gobForm, ti%5)
					sv, _ := vocab.StructOf(x)
					sv.FieldByName("Type").SetString(string(tn))
					ds, _ := roundTrip(c, x, prefix, st.Name()+".*")
					r.Case(id+vocab.Dump(x), true, "everything")
					reportAll(r, "everything", id, ds, map[string]interface{}{"entry": c.name, "value": vocab.Dump(x)})
				}
			}
		}
		r.Cells(len(codecs)*len(vocab.StructTypes), len(codecs)*len(vocab.StructTypes))
	}

	r.Rapid(t, "random", randomChecks, func(t *rapid.T) {
		depth := rapid.IntRange(0, r.Pick(3, 5)).Draw(t, "depth")
		g := vocab.NewGen(t, vocab.Opts{MaxDepth: depth, MaxList: r.Pick(4, 8), Gob: gobForm})
		gt := rapid.SampledFrom(goTypeNames).Draw(t, "gotype")
		x := g.Value(gt, depth, false)
		c := codecs[rapid.IntRange(0, len(codecs)-1).Draw(t, "entry")]
		variant := "vocabulary-type"
		if c.name != "pkg" {
			switch rapid.IntRange(0, 9).Draw(t, "typevariant") {
			case 0:
				sv, _ := vocab.StructOf(x)
				sv.FieldByName("Type").SetString("")
				variant = "empty-type"
			}
		}
		ds, _ := roundTrip(c, x, prefix, gt+".*")
		ft := vocab.FeaturesOf(x)
		dump := vocab.Dump(x)
		canon := c.name + " " + dump
		labels := append(ft.Labels("random"), "random entry="+c.name, "random "+variant)
		known := 0
		for _, d := range ds {
			if r.Peek(d.Key) {
				known++
			}
		}
		if known == 0 {
			labels = append(labels, "random clear-of-known-findings")
		}
		r.Case(canon, ft.SetProps >= 1, labels...)
		r.Sample(canon, map[string]interface{}{"layer": "random", "entry": c.name, "value": dump})
		failUnknown(r, t, "random", ds, map[string]interface{}{"entry": c.name, "value": dump, "differences": joinKeys(ds)})
	})
}
