package props

import (
	"testing"

	"pgregory.net/rapid"
	"verif/harness/ev"
	"verif/harness/vocab"
)

// C01 — JSON encode->decode round trip preserves every vocabulary property.

var goTypeNames = func() []string {
	var out []string
	for _, st := range vocab.StructTypes {
		out = append(out, st.Name())
	}
	return out
}()

func TestC01(t *testing.T) {
	r := ev.Open(t, "C01")
	defer r.Close(t)
	r.Rule("cells: every struct type x field x admissible shape with id, type and that one field set (complete at depth 1), both entry pairs " +
		"(package MarshalJSON/UnmarshalJSON and <T>.MarshalJSON/(*T).UnmarshalJSON); everything: one value per type with every field set; " +
		"random: random field subsets with random shapes nested to the depth bound. Oracle: Diff(x, decode(encode(x))) under the JSON normal form + same concrete Go type. " +
		"non-trivial = at least one property besides id and type is set on the root; distinct by canonical reflection dump of the value + entry pair")
	r.Assume("durations are whole seconds with |d| < 27 days (the xsd duration dependency mis-formats longer ones); floats are n/64 (exact in the writer's %f)")
	r.Assume("IRIs are absolute URLs, ids within one value are pairwise non-equivalent, multi-language maps use distinct real tags")
	runRoundTrips(t, r, "json-rt", []codec{codecJSONPkg, codecJSONTyped}, false, r.Pick(4000, 25000))
}

// runRoundTrips is the body shared by C01 (JSON) and C03 (gob): cells, everything and random layers.
func runRoundTrips(t *testing.T, r *ev.Rec, prefix string, codecs []codec, gobForm bool, randomChecks int) {

	if r.WantLayer("cells", true) {
		cells, unc := vocab.SingleCells(gobForm)
		cells = append(cells, vocab.AnonymousCells(gobForm)...)
		for _, u := range unc {
			r.Uncovered("UNCOVERED field " + u)
		}
		done := 0
		for _, c := range codecs {
			for _, cell := range cells {
				id := c.name + " " + cell.ID
				if !r.WantCell(id) {
					continue
				}
				done++
				ds, _ := roundTrip(c, cell.Value, prefix, cell.Type.Name()+"."+cell.Field.Name)
				canon := id + " " + vocab.Dump(cell.Value)
				r.Case(canon, true, "cells entry="+c.name, "cells kind="+string(cell.Field.Kind), "cells type="+cell.Type.Name())
				if done%97 == 0 {
					r.Sample(canon, map[string]interface{}{"layer": "cells", "entry": c.name, "cell": cell.ID, "value": vocab.Dump(cell.Value)})
				}
				reportAll(r, "cells", id, ds, map[string]interface{}{"entry": c.name, "cell": cell.ID, "value": vocab.Dump(cell.Value)})
			}
		}
		r.Cells(len(cells)*len(codecs), done)
		r.Exhaustive("cells", !r.Replaying())
	}
	if r.WantLayer("everything", true) {
		for _, c := range codecs {
			for _, st := range vocab.StructTypes {
				// one every-field-set value per vocabulary type name of this Go type (the reader and writer tables switch on the name)
				for _, tn := range vocab.NamesFor(st.Name()) {
					id := c.name + " " + st.Name() + "[" + string(tn) + "]"
					if !r.WantCell(id) {
						continue
					}
					x := vocab.Everything(st, gobForm)
					sv, _ := vocab.StructOf(x)
					sv.FieldByName("Type").SetString(string(tn))
					ds, _ := roundTrip(c, x, prefix, st.Name()+".*")
					r.Case(id+vocab.Dump(x), true, "everything")
					reportAll(r, "everything", id, ds, map[string]interface{}{"entry": c.name, "value": vocab.Dump(x)})
				}
			}
		}
		r.Cells(len(codecs)*len(vocab.StructTypes), len(codecs)*len(vocab.StructTypes))
	}

	r.Rapid(t, "random", randomChecks, func(t *rapid.T) {
		depth := rapid.IntRange(0, r.Pick(3, 5)).Draw(t, "depth")
		g := vocab.NewGen(t, vocab.Opts{MaxDepth: depth, MaxList: r.Pick(4, 8), Gob: gobForm})
		gt := rapid.SampledFrom(goTypeNames).Draw(t, "gotype")
		x := g.Value(gt, depth, false)
		c := codecs[rapid.IntRange(0, len(codecs)-1).Draw(t, "entry")]
		variant := "vocabulary-type"
		if c.name != "pkg" {
			switch rapid.IntRange(0, 9).Draw(t, "typevariant") {
			case 0:
				sv, _ := vocab.StructOf(x)
				sv.FieldByName("Type").SetString("")
				variant = "empty-type"
			}
		}
		ds, _ := roundTrip(c, x, prefix, gt+".*")
		ft := vocab.FeaturesOf(x)
		dump := vocab.Dump(x)
		canon := c.name + " " + dump
		labels := append(ft.Labels("random"), "random entry="+c.name, "random "+variant)
		known := 0
		for _, d := range ds {
			if r.Peek(d.Key) {
				known++
			}
		}
		if known == 0 {
			labels = append(labels, "random clear-of-known-findings")
		}
		r.Case(canon, ft.SetProps >= 1, labels...)
		r.Sample(canon, map[string]interface{}{"layer": "random", "entry": c.name, "value": dump})
		failUnknown(r, t, "random", ds, map[string]interface{}{"entry": c.name, "value": dump, "differences": joinKeys(ds)})
	})
}
