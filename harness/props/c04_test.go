package props

import (
	"bytes"
	"encoding"
	"encoding/gob"
	"encoding/json"
	"fmt"
	"go/ast"
	"go/parser"
	"go/token"
	"os"
	"path/filepath"
	"reflect"
	"regexp"
	"runtime"
	"sort"
	"strconv"
	"strings"
	"testing"
	"time"

	ap "github.com/go-ap/activitypub"
	"github.com/valyala/fastjson"
	"pgregory.net/rapid"
	"verif/harness/ev"
	"verif/harness/vocab"
)

// C04 — Decoders are total: no input makes them panic, hang or blow the stack.

type c04Entry struct {
	name  string
	class string // json | gob | text | helper
	run   func(data []byte) (interface{}, error)
}

var c04ValueTypes = []reflect.Type{
	reflect.TypeOf(ap.IRI("")), reflect.TypeOf(ap.IRIs{}), reflect.TypeOf(ap.MimeType("")), reflect.TypeOf(ap.ActivityVocabularyType("")), reflect.TypeOf(ap.Source{}),
	reflect.TypeOf(ap.PublicKey{}), reflect.TypeOf(ap.Endpoints{}), reflect.TypeOf(ap.NaturalLanguageValues{}), reflect.TypeOf(ap.LangRefValue{}), reflect.TypeOf(ap.LangRef("")),
	reflect.TypeOf(ap.Content{}), reflect.TypeOf(ap.ItemCollection{}),
}

var c04Terms = func() []string {
	seen := map[string]bool{}
	var out []string
	for _, st := range vocab.StructTypes {
		for _, f := range vocab.Fields(st) {
			if f.Term != "" && !seen[f.Term] {
				seen[f.Term] = true
				out = append(out, f.Term)
			}
		}
	}
	sort.Strings(out)
	return out
}()

// c04Entries builds the table of decode entry points: by reflection for the methods, by hand for the package functions and
// the exported JSON helpers (which take a parsed fastjson value and a property name).
var c04Entries = func() []c04Entry {
	var out []c04Entry
	out = append(out,
		c04Entry{"UnmarshalJSON", "json", func(d []byte) (interface{}, error) { return ap.UnmarshalJSON(d) }},
		c04Entry{"GobDecode", "gob", func(d []byte) (interface{}, error) { return ap.GobDecode(d) }},
	)
	types := append(append([]reflect.Type{}, vocab.StructTypes...), c04ValueTypes...)
	for _, tp := range types {
		tp := tp
		mk := func(method, class string, call func(p interface{}, d []byte) (bool, error)) {
			if ok, _ := call(reflect.New(tp).Interface(), nil); !ok {
				return
			}
			out = append(out, c04Entry{"(*" + tp.Name() + ")." + method, class, func(d []byte) (interface{}, error) {
				p := reflect.New(tp)
				_, err := call(p.Interface(), d)
				return p.Interface(), err
			}})
		}
		mk("UnmarshalJSON", "json", func(p interface{}, d []byte) (bool, error) {
			u, ok := p.(json.Unmarshaler)
			if !ok || d == nil {
				return ok, nil
			}
			return true, u.UnmarshalJSON(d)
		})
		mk("GobDecode", "gob", func(p interface{}, d []byte) (bool, error) {
			u, ok := p.(gob.GobDecoder)
			if !ok || d == nil {
				return ok, nil
			}
			return true, u.GobDecode(d)
		})
		mk("UnmarshalBinary", "gob", func(p interface{}, d []byte) (bool, error) {
			u, ok := p.(encoding.BinaryUnmarshaler)
			if !ok || d == nil {
				return ok, nil
			}
			return true, u.UnmarshalBinary(d)
		})
		mk("UnmarshalText", "text", func(p interface{}, d []byte) (bool, error) {
			u, ok := p.(encoding.TextUnmarshaler)
			if !ok || d == nil {
				return ok, nil
			}
			return true, u.UnmarshalText(d)
		})
	}
	// exported helpers over a parsed value; the property name is derived from the data so that every input is a pure function
	helper := func(name string, fn func(v *fastjson.Value, prop string) interface{}) {
		out = append(out, c04Entry{name, "helper", func(d []byte) (interface{}, error) {
			var p fastjson.Parser
			v, err := p.ParseBytes(d)
			if err != nil {
				return nil, err
			}
			prop := c04Terms[(len(d)*31+int(sum(d)))%len(c04Terms)]
			return fn(v, prop), nil
		}})
	}
	helper("JSONGetID", func(v *fastjson.Value, _ string) interface{} { return ap.JSONGetID(v) })
	helper("JSONGetType", func(v *fastjson.Value, _ string) interface{} { return ap.JSONGetType(v) })
	helper("JSONGetMimeType", func(v *fastjson.Value, p string) interface{} { return ap.JSONGetMimeType(v, p) })
	helper("JSONGetInt", func(v *fastjson.Value, p string) interface{} { return ap.JSONGetInt(v, p) })
	helper("JSONGetFloat", func(v *fastjson.Value, p string) interface{} { return ap.JSONGetFloat(v, p) })
	helper("JSONGetString", func(v *fastjson.Value, p string) interface{} { return ap.JSONGetString(v, p) })
	helper("JSONGetBytes", func(v *fastjson.Value, p string) interface{} { return ap.JSONGetBytes(v, p) })
	helper("JSONGetBoolean", func(v *fastjson.Value, p string) interface{} { return ap.JSONGetBoolean(v, p) })
	helper("JSONGetNaturalLanguageField", func(v *fastjson.Value, p string) interface{} { return ap.JSONGetNaturalLanguageField(v, p) })
	helper("JSONGetTime", func(v *fastjson.Value, p string) interface{} { return ap.JSONGetTime(v, p) })
	helper("JSONGetDuration", func(v *fastjson.Value, p string) interface{} { return ap.JSONGetDuration(v, p) })
	helper("JSONGetPublicKey", func(v *fastjson.Value, p string) interface{} { return ap.JSONGetPublicKey(v, p) })
	helper("JSONItemsFn", func(v *fastjson.Value, _ string) interface{} { it, _ := ap.JSONItemsFn(v); return it })
	helper("JSONLoadItem", func(v *fastjson.Value, _ string) interface{} { it, _ := ap.JSONLoadItem(v); return it })
	helper("JSONUnmarshalToItem", func(v *fastjson.Value, _ string) interface{} { return ap.JSONUnmarshalToItem(v) })
	helper("JSONGetItem", func(v *fastjson.Value, p string) interface{} { return ap.JSONGetItem(v, p) })
	helper("JSONGetURIItem", func(v *fastjson.Value, p string) interface{} { return ap.JSONGetURIItem(v, p) })
	helper("JSONGetItems", func(v *fastjson.Value, p string) interface{} { return ap.JSONGetItems(v, p) })
	helper("JSONGetLangRefField", func(v *fastjson.Value, p string) interface{} { return ap.JSONGetLangRefField(v, p) })
	helper("JSONGetIRI", func(v *fastjson.Value, p string) interface{} { return ap.JSONGetIRI(v, p) })
	helper("JSONGetActorEndpoints", func(v *fastjson.Value, p string) interface{} { return ap.JSONGetActorEndpoints(v, p) })
	helper("GetAPSource", func(v *fastjson.Value, _ string) interface{} { return ap.GetAPSource(v) })
	helper("JSONLoadObject", func(v *fastjson.Value, _ string) interface{} {
		x := &ap.Object{}
		_ = ap.JSONLoadObject(v, x)
		return x
	})
	helper("JSONLoadIntransitiveActivity", func(v *fastjson.Value, _ string) interface{} {
		x := &ap.IntransitiveActivity{}
		_ = ap.JSONLoadIntransitiveActivity(v, x)
		return x
	})
	helper("JSONLoadActivity", func(v *fastjson.Value, _ string) interface{} {
		x := &ap.Activity{}
		_ = ap.JSONLoadActivity(v, x)
		return x
	})
	helper("JSONLoadQuestion", func(v *fastjson.Value, _ string) interface{} {
		x := &ap.Question{}
		_ = ap.JSONLoadQuestion(v, x)
		return x
	})
	helper("JSONLoadActor", func(v *fastjson.Value, _ string) interface{} { x := &ap.Actor{}; _ = ap.JSONLoadActor(v, x); return x })
	helper("JSONLoadCollection", func(v *fastjson.Value, _ string) interface{} {
		x := &ap.Collection{}
		_ = ap.JSONLoadCollection(v, x)
		return x
	})
	helper("JSONLoadCollectionPage", func(v *fastjson.Value, _ string) interface{} {
		x := &ap.CollectionPage{}
		_ = ap.JSONLoadCollectionPage(v, x)
		return x
	})
	helper("JSONLoadOrderedCollection", func(v *fastjson.Value, _ string) interface{} {
		x := &ap.OrderedCollection{}
		_ = ap.JSONLoadOrderedCollection(v, x)
		return x
	})
	helper("JSONLoadOrderedCollectionPage", func(v *fastjson.Value, _ string) interface{} {
		x := &ap.OrderedCollectionPage{}
		_ = ap.JSONLoadOrderedCollectionPage(v, x)
		return x
	})
	helper("JSONLoadPlace", func(v *fastjson.Value, _ string) interface{} { x := &ap.Place{}; _ = ap.JSONLoadPlace(v, x); return x })
	helper("JSONLoadProfile", func(v *fastjson.Value, _ string) interface{} {
		x := &ap.Profile{}
		_ = ap.JSONLoadProfile(v, x)
		return x
	})
	helper("JSONLoadRelationship", func(v *fastjson.Value, _ string) interface{} {
		x := &ap.Relationship{}
		_ = ap.JSONLoadRelationship(v, x)
		return x
	})
	helper("JSONLoadTombstone", func(v *fastjson.Value, _ string) interface{} {
		x := &ap.Tombstone{}
		_ = ap.JSONLoadTombstone(v, x)
		return x
	})
	helper("JSONLoadLink", func(v *fastjson.Value, _ string) interface{} { x := &ap.Link{}; _ = ap.JSONLoadLink(v, x); return x })
	helper("JSONLoadPublicKey", func(v *fastjson.Value, _ string) interface{} {
		x := &ap.PublicKey{}
		_ = ap.JSONLoadPublicKey(v, x)
		return x
	})
	return out
}()

func sum(d []byte) (s byte) {
	for _, b := range d {
		s += b
	}
	return
}

// c04Census lists the exported decode entry points of the package by name pattern.
func c04Census(dir string) []string {
	fset := token.NewFileSet()
	files, _ := filepath.Glob(filepath.Join(dir, "*.go"))
	var out []string
	for _, fn := range files {
		if strings.HasSuffix(fn, "_test.go") {
			continue
		}
		f, err := parser.ParseFile(fset, fn, nil, 0)
		if err != nil {
			continue
		}
		for _, d := range f.Decls {
			fd, ok := d.(*ast.FuncDecl)
			if !ok || !fd.Name.IsExported() {
				continue
			}
			n := fd.Name.Name
			if fd.Recv != nil {
				if n != "UnmarshalJSON" && n != "GobDecode" && n != "UnmarshalBinary" && n != "UnmarshalText" {
					continue
				}
				recv := ""
				switch t := fd.Recv.List[0].Type.(type) {
				case *ast.StarExpr:
					recv = fmt.Sprint(t.X)
				case *ast.Ident:
					recv = t.Name
				}
				out = append(out, "(*"+recv+")."+n)
				continue
			}
			if strings.HasPrefix(n, "JSONGet") || strings.HasPrefix(n, "JSONLoad") || n == "JSONUnmarshalToItem" || n == "JSONItemsFn" || n == "UnmarshalJSON" || n == "GobDecode" || n == "GetAPSource" {
				out = append(out, n)
			}
		}
	}
	sort.Strings(out)
	return out
}

// ---- oracle ----------------------------------------------------------------------------------------------------------

// c04Follow inspects, compares, re-encodes and formats a value a decoder returned.
func c04Follow(v interface{}) {
	it, ok := v.(ap.Item)
	if !ok || it == nil {
		if rv := reflect.ValueOf(v); v != nil && !(rv.Kind() == reflect.Ptr && rv.IsNil()) {
			_ = fmt.Sprintf("%v", v)
			if m, ok := v.(json.Marshaler); ok {
				_, _ = m.MarshalJSON()
			}
			if m, ok := v.(gob.GobEncoder); ok {
				_, _ = m.GobEncode()
			}
		}
		return
	}
	rv := reflect.ValueOf(it)
	if rv.Kind() == reflect.Ptr && rv.IsNil() {
		return
	}
	_ = ap.IsNil(it)
	_ = ap.NotEmpty(it)
	_, _, _ = it.IsObject(), it.IsLink(), it.IsCollection()
	_, _, _ = it.GetType(), it.GetLink(), it.GetID()
	_ = ap.ItemsEqual(it, it)
	_, _ = ap.MarshalJSON(it)
	_, _ = ap.GobEncode(it)
	_ = fmt.Sprintf("%s %v %q", it, it, it)
	_ = ap.DerefItem(it)
}

const c04Watchdog = 10 * time.Second

// c04Call runs one entry point on one input under the guards.  measure adds the allocation bound.
func c04Call(e c04Entry, data []byte, measure bool) (ds []keyed, outcome string) {
	var before runtime.MemStats
	if measure {
		runtime.ReadMemStats(&before)
	}
	var v interface{}
	var err error
	stage := "decode"
	pi, ok := ev.Timed(c04Watchdog, func() {
		v, err = e.run(data)
		if err == nil {
			stage = "follow-up"
			c04Follow(v)
		}
	})
	key := func(what string) string { return fmt.Sprintf("total %s %s %s", what, e.name, stage) }
	switch {
	case !ok:
		return []keyed{{key("hang"), fmt.Sprintf("no return within %v for input %s", c04Watchdog, clipBytes(data, 200))}}, "hang"
	case pi != nil:
		return []keyed{{key("panic@" + pi.Frame), fmt.Sprintf("%s for input %s", pi.Value, clipBytes(data, 300))}}, "panic"
	}
	if measure {
		var after runtime.MemStats
		runtime.ReadMemStats(&after)
		if alloc := after.TotalAlloc - before.TotalAlloc; alloc > uint64(64<<20)+4096*uint64(len(data)) {
			ds = append(ds, keyed{key("alloc"), fmt.Sprintf("%d bytes allocated for an input of %d bytes", alloc, len(data))})
		}
	}
	switch {
	case err != nil:
		outcome = "error"
	case v == nil:
		outcome = "nil"
	default:
		outcome = "value"
		if it, ok := v.(ap.Item); ok && vocab.IsEmptyItem(it) {
			outcome = "nil"
		}
	}
	return ds, outcome
}

// ---- seeds and mutations ---------------------------------------------------------------------------------------------

func c04Seeds() (jsonSeeds, gobSeeds [][]byte) {
	files, _ := filepath.Glob("/repo/tests/mocks/*.json")
	sort.Strings(files)
	for _, f := range files {
		if b, err := os.ReadFile(f); err == nil {
			jsonSeeds = append(jsonSeeds, b)
		}
	}
	for _, st := range vocab.StructTypes {
		x := vocab.Everything(st, true)
		jsonSeeds = append(jsonSeeds, writeDoc(x, fixedChoices{false}))
		if b, err := ap.GobEncode(x); err == nil && len(b) > 0 {
			gobSeeds = append(gobSeeds, b)
		}
		if m, ok := x.(gob.GobEncoder); ok {
			if b, err := m.GobEncode(); err == nil && len(b) > 0 {
				gobSeeds = append(gobSeeds, b)
			}
		}
	}
	// valid values whose numbers are as large (or as odd) as their types allow, next to a list that holds one member: a reader that
	// sizes anything by a number it has read is handed the largest there is
	one := ap.ItemCollection{ap.IRI("https://example.com/only-member")}
	for _, n := range []uint{1 << 31, 1 << 40, 1<<63 - 1, ^uint(0)} {
		for _, x := range []ap.Item{
			&ap.OrderedCollection{ID: "https://example.com/big", Type: ap.OrderedCollectionType, TotalItems: n, OrderedItems: one},
			&ap.Collection{ID: "https://example.com/big", Type: ap.CollectionType, TotalItems: n, Items: one},
			&ap.OrderedCollectionPage{ID: "https://example.com/big", Type: ap.OrderedCollectionPageType, TotalItems: n, StartIndex: n, OrderedItems: one},
			&ap.CollectionPage{ID: "https://example.com/big", Type: ap.CollectionPageType, TotalItems: n, Items: one},
			&ap.Link{ID: "https://example.com/big", Type: ap.LinkType, Href: "https://example.com/h", Height: n, Width: n},
			&ap.Place{ID: "https://example.com/big", Type: ap.PlaceType, Radius: int64(n >> 1), Altitude: float64(n), Latitude: -float64(n), Accuracy: 1e308},
			&ap.Object{ID: "https://example.com/big", Type: ap.VideoType, Duration: time.Duration(n >> 1), Replies: &ap.OrderedCollection{Type: ap.OrderedCollectionType, TotalItems: n, OrderedItems: one}},
		} {
			if b, err := ap.MarshalJSON(x); err == nil && len(b) > 0 {
				jsonSeeds = append(jsonSeeds, b)
			}
			if b, err := ap.GobEncode(x); err == nil && len(b) > 0 {
				gobSeeds = append(gobSeeds, b)
			}
			if m, ok := x.(gob.GobEncoder); ok {
				if b, err := m.GobEncode(); err == nil && len(b) > 0 {
					gobSeeds = append(gobSeeds, b)
				}
			}
		}
	}
	for _, v := range []interface{}{ap.IRIs{"https://example.com/a", "https://example.com/b"}, ap.NaturalLanguageValues{{Ref: "en", Value: ap.Content("x")}, {Ref: "fr", Value: ap.Content("y")}},
		ap.ItemCollection{ap.IRI("https://example.com/a"), &ap.Object{ID: "https://example.com/o", Type: ap.NoteType}}, ap.Source{MediaType: "a/b", Content: ap.DefaultNaturalLanguageValue("c")},
		ap.PublicKey{ID: "https://example.com/k", PublicKeyPem: "pem"}, ap.LangRefValue{Ref: "en", Value: ap.Content("v")}, ap.Content("text"), ap.LangRef("en"), ap.MimeType("a/b")} {
		if m, ok := v.(gob.GobEncoder); ok {
			if b, err := m.GobEncode(); err == nil && len(b) > 0 {
				gobSeeds = append(gobSeeds, b)
			}
		}
		if it, ok := v.(ap.Item); ok {
			if b, err := ap.GobEncode(it); err == nil && len(b) > 0 {
				gobSeeds = append(gobSeeds, b)
			}
		}
	}
	return
}

var c04Hostile = [][]byte{
	nil, []byte(``), []byte(`"`), []byte(`""`), []byte(`"a`), []byte(`a"`), []byte(`{`), []byte(`}`), []byte(`[`), []byte(`]`), []byte(`{}`), []byte(`[]`), []byte(`null`), []byte(`true`), []byte(`0`), []byte(`-`), []byte(`-0`),
	[]byte(`1e999999`), []byte(`-1e-999999`), []byte(`123456789012345678901234567890123456789012345678901234567890`), []byte(`0.0000000000000000000000000000000000000000000001`), []byte(`"\ud800"`), []byte(`"\u0000"`),
	[]byte("\"\xff\xfe\""), []byte("\xef\xbb\xbf{}"), []byte(`{"id":1}`), []byte(`{"id":null}`), []byte(`{"id":[]}`), []byte(`{"id":{}}`), []byte(`{"type":1}`), []byte(`{"type":["Note","Article"]}`), []byte(`{"type":{"a":1}}`),
	[]byte(`{"type":"Note","name":1}`), []byte(`{"type":"Note","name":[1,2]}`), []byte(`{"type":"Note","name":{"en":1}}`), []byte(`{"type":"Note","nameMap":"x"}`), []byte(`{"type":"Note","nameMap":{"":""}}`), []byte(`{"type":"Note","to":1}`),
	[]byte(`{"type":"Note","to":{"to":{"to":1}}}`), []byte(`{"type":"Note","to":[[["https://a.b/c"]]]}`), []byte(`{"type":"Note","to":[null,1,true,{},[],""]}`), []byte(`{"type":"Note","published":"x"}`), []byte(`{"type":"Note","published":1}`),
	[]byte(`{"type":"Note","duration":"P"}`), []byte(`{"type":"Note","duration":"-"}`), []byte(`{"type":"Note","duration":"-P"}`), []byte(`{"type":"Note","duration":"PT"}`), []byte(`{"type":"Note","duration":"P99999999999999999999Y"}`),
	[]byte(`{"type":"Note","duration":"PT1.5.5S"}`), []byte(`{"type":"Note","duration":"P1Y2M3DT4H5M6.7S"}`), []byte(`{"type":"Note","source":1}`), []byte(`{"type":"Note","source":{"content":{"a":1}}}`), []byte(`{"type":"Note","source":"x"}`),
	[]byte(`{"type":"Person","publicKey":1}`), []byte(`{"type":"Person","publicKey":[]}`), []byte(`{"type":"Person","endpoints":1}`), []byte(`{"type":"Person","endpoints":{"sharedInbox":{"id":1}}}`), []byte(`{"type":"Place","latitude":"x"}`),
	[]byte(`{"type":"Place","latitude":1e999}`), []byte(`{"type":"Place","radius":1.5}`), []byte(`{"type":"Place","radius":99999999999999999999}`), []byte(`{"type":"Collection","totalItems":-1}`), []byte(`{"type":"Collection","totalItems":1e30}`),
	[]byte(`{"type":"Collection","items":{"type":"Collection","items":{"type":"Collection"}}}`), []byte(`{"type":"Question","closed":"yes"}`), []byte(`{"type":"Question","closed":{}}`), []byte(`{"type":"Question","oneOf":1}`),
	[]byte(`{"type":"Link","href":1}`), []byte(`{"type":"Link","href":{"id":"x"}}`), []byte(`{"type":"Link","height":-1}`), []byte(`{"type":"Link","rel":[1]}`), []byte(`{"type":"Mention","name":null}`), []byte(`{"type":"Tombstone","formerType":1}`),
	[]byte(`{"type":"Tombstone","deleted":[]}`), []byte(`{"type":"IRI","id":"https://a.b/c"}`), []byte(`{"type":"ItemCollection","id":"https://a.b/c","items":["https://a.b/d"]}`), []byte(`{"type":"IRICollection","id":"https://a.b/c"}`),
	[]byte(`{"type":"Note","attachment":{"type":"IRI","id":"https://a.b/c"},"tag":[{"type":"ItemCollection"},{"type":"IRICollection","name":"x"}]}`),
	[]byte(`{"type":"Emoji"}`), []byte(`{"type":""}`), []byte(`{"type":"note"}`), []byte(`{"id":"x","id":"y","type":"Note","type":"Create"}`), []byte(`[{"type":"Note"},{"type":"Note"}]`), []byte(`[1,2,3]`),
	[]byte(`["https://a.b/c",["https://a.b/d"]]`), []byte(`"https://a.b/c"`), []byte(`"not a url"`), []byte(` {"type":"Note"} `), []byte(`{"type":"Note"}x`), []byte(`{"type":"Note"}{"type":"Note"}`), []byte("{\"type\":\"Note\",\"name\":\"a\x00b\"}"),
	[]byte(`{"@context":1,"type":"Note"}`), []byte(`{"type":"Create","object":{"type":"Create","object":{"type":"Create","object":"https://a.b/c"}}}`), []byte(`{"type":"Relationship","subject":1,"object":2,"relationship":3}`),
	[]byte(`{"type":"Profile","describes":[]}`), []byte(`{"type":"OrderedCollectionPage","startIndex":"1","orderedItems":"x"}`), []byte(`{"type":"Note","url":1}`), []byte(`{"type":"Note","url":[1,{"href":1}]}`), []byte(`{"type":"Note","mediaType":1}`),
	// valid documents whose strings hold the characters the string writers treat on their own (escaped and raw): decoding is easy,
	// the follow-up battery then re-encodes, compares and formats the decoded value
	[]byte(`{"type":"Note","id":"https://a.b/n","name":"a\u2028b","content":"\u2029","summary":"\u000b\u0008\u000c\u000e\u001d\u001e\u001f\u007f"}`),
	[]byte("{\"type\":\"Note\",\"name\":\"raw \xe2\x80\xa8 and \xe2\x80\xa9\",\"contentMap\":{\"en\":\"\xe2\x80\xa8\",\"fr\":\"x\\u2029y\"}}"),
	[]byte(`{"type":"Place","id":"https://a.b/p","units":"m\u2028","name":"\ud83d\ude00\u00e9\ufffd"}`),
	[]byte(`{"type":"Person","id":"https://a.b/\u2028","preferredUsername":"x\u2029","publicKey":{"id":"https://a.b/k\u2028","owner":"https://a.b/\\","publicKeyPem":"\u2029\u000b"}}`),
	[]byte(`{"type":"Link\u2028","href":"https://a.b/l","mediaType":"text/\u2029","hrefLang":"e\u2028n","rel":"x\u000b"}`),
	[]byte(`{"type":"Create","id":"https://a.b/c","object":{"type":"Note","source":{"content":"\u2028\u2029","mediaType":"t\u000b"}},"summaryMap":{"e\u2028n":"v"}}`),
	// plain texts (no JSON at all) holding a backslash-u that is followed by something else than four hex digits: what the text
	// decoders and the fallbacks of the language-value decoders get when a caller hands them raw text
	[]byte(`C:\users\public`), []byte(`\underline{x} and \u00e9 and \u00g9`), []byte(`"caf\u00g9 unterminated`), []byte(`\u`), []byte(`\u12`), []byte(`\uZZZZ\uZZZZ\uZZZZ`), []byte(`{"en":"x\uqqqq"`),
	// plain texts with brackets that do not pair up (the text[tag] form the text marshaler writes, cut anywhere)
	[]byte(`ab]`), []byte(`see note 1]`), []byte(`"a","b"]`), []byte(`[`), []byte(`]`), []byte(`x[`), []byte(`][`), []byte(`text[en`), []byte(`text]en[`), []byte(`[]`), []byte(`text[]`), []byte(`[en]`), []byte(`a[b]c]`),
	// language-tagged texts that are not valid UTF-8, in values that have an id (the verbose formatter prints those): the parser passes the bytes through
	[]byte("{\"type\":\"Note\",\"id\":\"https://a.b/n\",\"nameMap\":{\"en\":\"caf\xe9\",\"fr\":\"\xff\xfe\"},\"summaryMap\":{\"de\":\"\xc3\"},\"content\":\"\x80\",\"contentMap\":{\"en\":\"\xed\xa0\x80\"}}"),
	[]byte("{\"type\":\"Person\",\"id\":\"https://a.b/p\",\"preferredUsernameMap\":{\"en\":\"\xf8\x88\"},\"name\":\"\xf8\",\"summaryMap\":{\"en\":\"a\xc0\xafb\",\"-\":\"\xfe\"}}"),
	[]byte("{\"type\":\"Create\",\"id\":\"https://a.b/c\",\"nameMap\":{\"en\":\"\xe9\"},\"object\":{\"type\":\"Article\",\"id\":\"https://a.b/a\",\"nameMap\":{\"pt\":\"\xe3o\"},\"source\":{\"contentMap\":{\"en\":\"\xa0\"}}}}"),
}

func c04Nest(shape string, depth int) []byte {
	var b bytes.Buffer
	switch shape {
	case "arrays":
		b.WriteString(strings.Repeat("[", depth) + strings.Repeat("]", depth))
	case "objects":
		b.WriteString(strings.Repeat(`{"type":"Create","object":`, depth) + `"https://example.com/x"` + strings.Repeat("}", depth))
	case "lists":
		b.WriteString(strings.Repeat(`{"type":"Note","tag":[`, depth) + `"https://example.com/x"` + strings.Repeat("]}", depth))
	case "maps":
		b.WriteString(`{"type":"Note","nameMap":` + strings.Repeat(`{"en":`, depth) + `"x"` + strings.Repeat("}", depth) + `}`)
	case "activity-core":
		b.WriteString(strings.Repeat(`{"type":"Create","inReplyTo":`, depth) + `"https://example.com/x"` + strings.Repeat("}", depth))
	case "actor-core":
		b.WriteString(strings.Repeat(`{"type":"Person","attachment":[`, depth) + `"https://example.com/x"` + strings.Repeat("]}", depth))
	case "collection":
		b.WriteString(strings.Repeat(`{"type":"OrderedCollection","orderedItems":[`, depth) + strings.Repeat("]}", depth))
	}
	return b.Bytes()
}

// c04GobNest builds a gob stream of an object nested `depth` times (each level is the gob bytes of the inner one).
func c04GobNest(depth int) []byte {
	var it ap.Item = ap.IRI("https://example.com/leaf")
	for i := 0; i < depth; i++ {
		it = &ap.Activity{ID: ap.IRI(fmt.Sprintf("https://example.com/a/%d", i)), Type: ap.CreateType, Object: it}
	}
	b, _ := ap.GobEncode(it)
	return b
}

// the fuzz/seed target: one selector picks the entry point, the rest is the input
func c04Target(sel uint16, data []byte) []keyed {
	e := c04Entries[int(sel)%len(c04Entries)]
	ds, _ := c04Call(e, data, false)
	return ds
}

func TestC04(t *testing.T) {
	nestCells := []struct {
		shape string
		depth int
	}{}
	for _, sh := range []string{"arrays", "objects", "lists", "maps", "collection", "activity-core", "actor-core"} {
		for _, d := range []int{1, 2, 10, 100, 299, 300, 301, 1000, 20000, 200000} {
			nestCells = append(nestCells, struct {
				shape string
				depth int
			}{sh, d})
		}
	}
	for _, d := range []int{1, 5, 12, 18} {
		nestCells = append(nestCells, struct {
			shape string
			depth int
		}{"gob", d})
	}
	// chains: for every vocabulary type name x every item-valued term of its Go type, a document of that type nested 28 deep
	// through that term (single object and one-element array alternate); a loader or comparator that does the work of a level
	// twice needs 2^28 steps and trips the watchdog
	type chainCell struct{ typ, term string }
	var chainCells []chainCell
	for _, ti := range vocab.GroundTruth {
		for _, f := range vocab.Fields(vocab.StructType(ti.GoType)) {
			if f.Kind == vocab.KItem || f.Kind == vocab.KItems {
				chainCells = append(chainCells, chainCell{string(ti.Name), f.Term})
			}
		}
	}
	chainDoc := func(c chainCell, depth int) []byte {
		var b bytes.Buffer
		for i := 0; i < depth; i++ {
			fmt.Fprintf(&b, `{"id":"https://example.com/n/%d","type":%q,%q:`, i, c.typ, c.term)
			if i%2 == 1 {
				b.WriteString("[")
			}
		}
		b.WriteString(`"https://example.com/leaf"`)
		for i := depth - 1; i >= 0; i-- {
			if i%2 == 1 {
				b.WriteString("]")
			}
			b.WriteString("}")
		}
		return b.Bytes()
	}
	// the same chain twice, as the two members of one list (with and without ids): list decoding compares a member with the earlier
	// ones, and a comparison that looks at a nested property more than once pays 2^depth for two equal chains
	chainTwins := func(c chainCell, depth int, ids bool) []byte {
		one := chainDoc(c, depth)
		if !ids {
			one = regexp.MustCompile(`"id":"https://example.com/n/\d+",`).ReplaceAll(one, nil)
		}
		return []byte(`{"id":"https://example.com/outer","type":"Note","tag":[` + string(one) + `,` + string(one) + `]}`)
	}
	nestEntries := []string{"UnmarshalJSON", "(*Object).UnmarshalJSON", "(*Activity).UnmarshalJSON", "(*OrderedCollection).UnmarshalJSON", "(*NaturalLanguageValues).UnmarshalJSON", "(*IRIs).UnmarshalJSON",
		"(*ItemCollection).UnmarshalJSON", "JSONLoadItem", "JSONGetItems", "GobDecode", "(*Activity).GobDecode"}
	entryByName := map[string]c04Entry{}
	for _, e := range c04Entries {
		entryByName[e.name] = e
	}
	// type pairs: a list (property and top-level array) holding one member of each of two type names, for every ordered pair of names:
	// list decoding compares every member with the earlier ones, and which comparison runs depends on both types
	var pairNames []string
	for _, ti := range vocab.GroundTruth {
		pairNames = append(pairNames, string(ti.Name))
	}
	pairNames = append(pairNames, "", "Emoji")
	pairDoc := func(a, b string, form int) []byte {
		m := func(tn, id string) string {
			if tn == "" {
				return fmt.Sprintf(`{"id":%q,"name":"n"}`, id)
			}
			return fmt.Sprintf(`{"id":%q,"type":%q,"name":"n","href":"https://example.com/h"}`, id, tn)
		}
		x, y := m(a, "https://example.com/m/1"), m(b, "https://example.com/m/2")
		switch form {
		case 0:
			return []byte(`{"type":"Note","id":"https://example.com/n","attachment":[` + x + `,` + y + `]}`)
		case 1:
			return []byte(`[` + x + `,` + y + `]`)
		}
		// the same id on both members
		return []byte(`{"type":"Create","id":"https://example.com/c","tag":[` + m(a, "https://example.com/m/1") + `,` + m(b, "https://example.com/m/1") + `]}`)
	}
	nPairs := len(pairNames) * len(pairNames)
	if childLayer() == "type-pairs" {
		runChild(nPairs, func(i int) ([]keyed, string) {
			a, b := pairNames[i/len(pairNames)], pairNames[i%len(pairNames)]
			info := fmt.Sprintf("[%s, %s]", a, b)
			var ds []keyed
			for form := 0; form < 3; form++ {
				d, oc := c04Call(entryByName["UnmarshalJSON"], pairDoc(a, b, form), false)
				for _, x := range d {
					x.Key += " type-pair"
					ds = append(ds, x)
				}
				if oc == "hang" {
					return ds, "RESTART after a hang: " + info
				}
			}
			return ds, info
		})
		return
	}
	if childLayer() == "value-forms" {
		// a per-type decoder fills a variable of its type (var q Question; q.UnmarshalJSON(doc)); that variable is then used as an item
		// by value.  What the decoder filled must bear the same inspection, comparison and re-encoding as the pointer to it.
		jsonSeeds, gobSeeds := c04Seeds()
		runChild(len(c04Entries), func(i int) ([]keyed, string) {
			e := c04Entries[i]
			seeds := append(append([][]byte{}, jsonSeeds...), c04Hostile...)
			if e.class == "gob" {
				seeds = gobSeeds
				// what the hostile documents decode to, stored and read back
				for _, doc := range c04Hostile {
					_ = evSafe(func() { // what goes wrong here is the JSON entries' to report
						if it, err := ap.UnmarshalJSON(doc); err == nil && !vocab.IsEmptyItem(it) {
							if b, err := ap.GobEncode(it); err == nil && len(b) > 0 {
								seeds = append(seeds, b)
							}
						}
					})
				}
			}
			var ds []keyed
			followed := 0
			for _, data := range seeds {
				var v interface{}
				var err error
				stage := "decode"
				pi, ok := ev.Timed(c04Watchdog, func() {
					if v, err = e.run(data); err != nil {
						return
					}
					stage = "follow-up"
					c04Follow(v)
					rv := reflect.ValueOf(v)
					if rv.Kind() == reflect.Ptr && !rv.IsNil() && rv.Elem().Kind() == reflect.Struct {
						if it, isItem := rv.Elem().Interface().(ap.Item); isItem {
							stage = "follow-up-by-value"
							followed++
							c04Follow(it)
						}
					}
				})
				key := fmt.Sprintf("total %%s %s %s", e.name, stage)
				switch {
				case !ok:
					return append(ds, keyed{fmt.Sprintf(key, "hang"), "no return within the watchdog for input " + clipBytes(data, 200)}), "RESTART after a hang: " + e.name
				case pi != nil:
					ds = append(ds, keyed{fmt.Sprintf(key, "panic@"+pi.Frame), pi.Value + " for input " + clipBytes(data, 300)})
				}
			}
			return ds, fmt.Sprintf("%s followed=%d", e.name, followed)
		})
		return
	}
	if childLayer() == "chains" {
		hangs, _ := strconv.Atoi(os.Getenv("VERIF_CHILD_RESTARTS")) // hangs seen by earlier child processes of this layer
		runChild(len(chainCells), func(i int) ([]keyed, string) {
			c := chainCells[i]
			info := fmt.Sprintf("%s via %s", c.typ, c.term)
			if hangs >= 5 {
				return nil, "skipped after 5 hangs in this layer (each costs a 10 s watchdog): " + info
			}
			ds, oc := c04Call(entryByName["UnmarshalJSON"], chainDoc(c, 28), false)
			for k := range ds {
				ds[k].Key += " chain:" + c.typ + "." + c.term
			}
			if oc == "hang" {
				hangs++
				return ds, "RESTART after a hang: " + info
			}
			for _, ids := range []bool{true, false} {
				d2, oc2 := c04Call(entryByName["UnmarshalJSON"], chainTwins(c, 28, ids), false)
				for _, x := range d2 {
					x.Key += " chain-twins:" + c.typ + "." + c.term
					ds = append(ds, x)
				}
				if oc2 == "hang" {
					hangs++
					return ds, "RESTART after a hang: " + info
				}
			}
			return ds, info
		})
		return
	}
	if childLayer() == "nesting" {
		runChild(len(nestCells), func(i int) ([]keyed, string) {
			c := nestCells[i]
			var data []byte
			if c.shape == "gob" {
				data = c04GobNest(c.depth)
			} else {
				data = c04Nest(c.shape, c.depth)
			}
			var ds []keyed
			info := fmt.Sprintf("%s depth %d (%d bytes)", c.shape, c.depth, len(data))
			for _, n := range nestEntries {
				if e, ok := entryByName[n]; ok {
					d, oc := c04Call(e, data, true)
					for _, x := range d {
						x.Key += fmt.Sprintf(" nesting:%s", c.shape)
						ds = append(ds, x)
					}
					if oc == "hang" {
						return ds, "RESTART after a hang: " + info // the hung call keeps running: later measurements in this process would be polluted
					}
				}
			}
			return ds, info
		})
		return
	}

	r := ev.Open(t, "C04")
	defer r.Close(t)
	r.Rule("tiny: the empty input and every 1-byte input at every decode entry point (exhaustive); hostile: ~100 hand-written kind-confused / out-of-range / malformed documents at every entry point; truncation: every prefix of " +
		"the seed documents (19 repository mocks, one every-field-set document per type) and of the gob encodings of every-field-set values, at the matching entry points; nesting: arrays/objects/lists/language maps/" +
		"collections nested 1..200000 deep, chains (every type name x every item-valued term nested 28 deep, ~1800 documents), type pairs (a list of two members for every ordered pair of type names, three document forms) and gob values nested up to 18 deep, in a child process (a stack overflow is fatal) with an allocation bound; structure-aware random: seeds with a random node replaced by " +
		"another kind, duplicated members, huge numbers, invalid UTF-8, byte flips and rewritten length bytes in gob streams; corpus: saved fuzz inputs; thorough adds a native coverage-guided fuzz campaign. " +
		"mistyped: every member name the readers look for (id, type, @context and every vocabulary term) x 20 JSON values of every kind x 8 kinds of document x {top level, item position, list position}; gob-mistyped: every member of every stored seed value replaced by 15 payloads of other kinds, plus an unknown member, through the package and the per-type decoders; value-forms (child process, run first): every entry point x every valid seed and hostile document (and what those decode to, stored with gob); the follow-up battery on what was returned, and on what a per-type decoder filled by value as well. Oracle: no panic, returns within a 10 s watchdog, allocation <= 64 MiB + 4 KiB per input byte (measured layers), and the follow-up battery (IsNil, NotEmpty, predicates, ItemsEqual(v,v), both encoders, fmt, " +
		"DerefItem) on every value returned without error. non-trivial = the input is accepted by the underlying parser (JSON parses / gob decodes) and reaches a loader; distinct by entry point + input bytes")
	r.Assume("asymptotic cost is not decided (only a coarse absolute allocation bound and a watchdog with several orders of magnitude of margin)")

	// census: is every exported decode entry point in the table?
	repo := os.Getenv("VERIF_REPO")
	if repo == "" {
		repo = "/repo"
	}
	for _, n := range c04Census(repo) {
		if _, ok := entryByName[n]; !ok {
			r.Uncovered("UNCOVERED entry point " + n)
		}
	}
	r.Note("entry_points", len(c04Entries))

	// the child-process layers that can end in a fatal error come first: what they report is printed at once, and stays reported should
	// a later in-process layer die of the same cause
	if r.WantLayer("value-forms", true) && !r.Replaying() {
		results := runInChildren(t, "value-forms", len(c04Entries), 15*time.Minute)
		for i, res := range results {
			cell := "value-form " + c04Entries[i].name
			r.Case(cell+" "+res.Info, strings.Contains(res.Info, "followed=") && !strings.HasSuffix(res.Info, "followed=0"), "value-forms")
			if i%7 == 0 {
				r.Sample(cell, map[string]interface{}{"layer": "value-forms", "entry": c04Entries[i].name, "info": res.Info})
			}
			if res.Fatal != "" {
				what := "fatal"
				if strings.Contains(res.Fatal, "stack") {
					what = "stack-overflow"
				}
				r.Report("value-forms", cell, "total "+what+" value-form "+c04Entries[i].name, res.Fatal+" | "+cell, cell)
				continue
			}
			for _, d := range res.Diffs {
				r.Report("value-forms", cell, d.Key, d.Detail+" | "+cell, cell)
			}
		}
		r.Cells(len(c04Entries), len(c04Entries))
		r.Exhaustive("value-forms", true)
	}

	record := func(layer, cell string, e c04Entry, data []byte, ds []keyed, outcome string, sample bool) {
		nt := outcome == "value" || outcome == "nil"
		r.Case(e.name+" "+string(data), nt, layer+" outcome="+outcome, layer+" class="+e.class)
		if sample {
			r.Sample(cell, map[string]interface{}{"layer": layer, "entry": e.name, "input": clipBytes(data, 200), "outcome": outcome})
		}
		reportAll(r, layer, cell, ds, map[string]interface{}{"entry": e.name, "input_hex": fmt.Sprintf("%x", data)})
	}

	if r.WantLayer("tiny", true) {
		n := 0
		for _, e := range c04Entries {
			inputs := [][]byte{{}}
			for b := 0; b < 256; b++ {
				inputs = append(inputs, []byte{byte(b)})
			}
			for _, in := range inputs {
				cell := fmt.Sprintf("%s %x", e.name, in)
				if !r.WantCell(cell) {
					continue
				}
				n++
				ds, oc := c04Call(e, in, false)
				record("tiny", cell, e, in, ds, oc, n%1999 == 0)
			}
		}
		r.Cells(len(c04Entries)*257, n)
		r.Exhaustive("tiny", !r.Replaying())
	}

	if r.WantLayer("hostile", true) {
		n := 0
		for _, e := range c04Entries {
			for hi, in := range c04Hostile {
				cell := fmt.Sprintf("%s hostile#%d", e.name, hi)
				if !r.WantCell(cell) {
					continue
				}
				n++
				ds, oc := c04Call(e, in, false)
				record("hostile", cell, e, in, ds, oc, n%997 == 0)
			}
		}
		r.Cells(len(c04Entries)*len(c04Hostile), n)
		r.Exhaustive("hostile", !r.Replaying())
	}

	// lists of near-equal IRIs: the decoders de-duplicate list members with the IRI equivalence, so every pair of presentations
	// (case, trailing slash, dot segments, query order and multiplicity, fragment) of one id goes through it while decoding
	if r.WantLayer("iri-lists", true) {
		var iris []string
		for _, h := range []string{"example.com", "EXAMPLE.com:8080"} {
			for _, p := range []string{"", "/", "/a", "/A/", "/a/./b", "/a//b"} {
				for _, q := range []string{"", "?x=1", "?x=1&x=2", "?x=2&x=1", "?x=1&x=1", "?x=1&y=2", "?y=2&x=1", "?x="} {
					iris = append(iris, "https://"+h+p+q)
				}
			}
		}
		iris = append(iris, "http://example.com/a?x=1#f", "https://example.com/%zz", "https://example.com/a?x=%zz", "https://[::1/a", "https://example.com/a?x=1;y=2", "not a url", "")
		n := 0
		names := []string{"UnmarshalJSON", "(*Object).UnmarshalJSON", "(*OrderedCollection).UnmarshalJSON", "(*IRIs).UnmarshalJSON", "(*ItemCollection).UnmarshalJSON", "JSONGetItems"}
		for i, a := range iris {
			for j, b := range iris {
				ja, _ := json.Marshal(a)
				jb, _ := json.Marshal(b)
				docs := [][]byte{
					[]byte(fmt.Sprintf(`[%s,%s]`, ja, jb)),
					[]byte(fmt.Sprintf(`{"type":"Note","to":[%s,%s,{"id":%s,"type":"Person"}],"tag":[{"id":%s},{"id":%s}]}`, ja, jb, jb, ja, jb)),
					[]byte(fmt.Sprintf(`{"type":"OrderedCollection","orderedItems":[{"id":%s,"type":"Note"},%s,{"id":%s,"type":"Note"}]}`, ja, jb, jb)),
				}
				for di, doc := range docs {
					e, ok := entryByName[names[(i+j+di)%len(names)]]
					if di == 0 {
						e, ok = entryByName[[]string{"UnmarshalJSON", "(*IRIs).UnmarshalJSON", "JSONItemsFn"}[(i+j)%3]]
					}
					if !ok {
						e = entryByName["UnmarshalJSON"]
					}
					cell := fmt.Sprintf("%s iri-pair#%d,%d doc%d", e.name, i, j, di)
					if !r.WantCell(cell) {
						continue
					}
					n++
					ds, oc := c04Call(e, doc, false)
					record("iri-lists", cell, e, doc, ds, oc, n%9973 == 0)
				}
			}
		}
		r.Cells(n, n)
		r.Exhaustive("iri-lists", !r.Replaying())
	}

	jsonSeeds, gobSeeds := c04Seeds()
	// lists whose later member repeats an earlier one (same id and type, or both without id) and adds one property in one value shape:
	// list decoding compares every new member with the earlier ones, so each term's comparison code runs on "set on one side only"
	if r.WantLayer("near-dups", true) {
		shapes := []string{`"https://example.com/v"`, `""`, `{"type":"Link","href":"https://example.com/l"}`, `{"id":"https://example.com/o","type":"Note"}`, `{"name":"anonymous"}`,
			`["https://example.com/1","https://example.com/2"]`, `[]`, `{}`, `null`, `7`, `true`, `{"en":"text"}`, `"plain text"`}
		bases := []string{`"id":"https://example.com/x","type":"Page"`, `"type":"Image","name":"pic"`, `"id":"https://example.com/p","type":"Person"`, `"id":"https://example.com/c","type":"Create"`,
			`"id":"https://example.com/q","type":"Question"`, `"id":"https://example.com/oc","type":"OrderedCollectionPage"`, `"id":"https://example.com/pl","type":"Place"`}
		n := 0
		for ti, term := range c04Terms {
			for si, sh := range shapes {
				for bi, base := range bases {
					plain, more := "{"+base+"}", "{"+base+`,"`+term+`":`+sh+"}"
					docs := []string{
						`{"type":"Note","id":"https://example.com/n","tag":[` + plain + `,` + more + `]}`,
						`{"type":"Note","id":"https://example.com/n","attachment":[` + more + `,` + plain + `]}`,
						`[` + plain + `,` + more + `,` + plain + `]`,
						`{"type":"OrderedCollection","id":"https://example.com/col","orderedItems":[` + more + `,` + more + `,` + plain + `]}`,
					}
					doc := []byte(docs[(ti+si+bi)%len(docs)])
					e := entryByName[[]string{"UnmarshalJSON", "(*Object).UnmarshalJSON", "(*OrderedCollection).UnmarshalJSON", "(*ItemCollection).UnmarshalJSON"}[(ti+si)%4]]
					if e.name == "" {
						e = entryByName["UnmarshalJSON"]
					}
					cell := fmt.Sprintf("%s near-dup %s shape#%d base#%d", e.name, term, si, bi)
					if !r.WantCell(cell) {
						continue
					}
					n++
					ds, oc := c04Call(e, doc, false)
					record("near-dups", cell, e, doc, ds, oc, n%1499 == 0)
				}
			}
		}
		r.Cells(len(c04Terms)*len(shapes)*len(bases), n)
		r.Exhaustive("near-dups", !r.Replaying())
	}

	// every member name the readers look for (id, type and @context included) holding every kind of JSON value, the expected kinds and
	// the others: at top level, in an item position and in a list position, for seven kinds of document
	if r.WantLayer("mistyped", true) {
		shapes := []string{`"https://example.com/v"`, `""`, `{"type":"Link","href":"https://example.com/l"}`, `{"id":"https://example.com/o","type":"Note"}`, `{"name":"anonymous"}`,
			`["https://example.com/1","https://example.com/2"]`, `[]`, `[[]]`, `[null]`, `[""]`, `["Note","Article"]`, `{}`, `null`, `7`, `-1.5e300`, `true`, `{"en":"text"}`, `"plain text"`, `"2021-03-04T05:06:07Z"`, `"PT5S"`}
		bases := []string{`"id":"https://example.com/x","type":"Page"`, `"type":"Image","name":"pic"`, `"id":"https://example.com/p","type":"Person"`, `"id":"https://example.com/c","type":"Create"`,
			`"id":"https://example.com/q","type":"Question"`, `"id":"https://example.com/oc","type":"OrderedCollectionPage"`, `"id":"https://example.com/pl","type":"Place"`, `"type":"Mention","href":"https://example.com/m"`}
		terms := append([]string{"id", "type", "@context"}, c04Terms...)
		n, total := 0, 0
		for ti, term := range terms {
			for si, sh := range shapes {
				for bi, base := range bases {
					// the member under test comes first, so that it is the one a lookup by name finds
					inner := `{"` + term + `":` + sh + `,` + base + `}`
					if term == "id" || term == "type" {
						// ... and replaces the base's own member of that name
						b2 := strings.Replace(base, `"id":"https://example.com/`, `"x-id":"https://example.com/`, 1)
						if term == "type" {
							b2 = strings.Replace(base, `"type":`, `"x-type":`, 1)
						}
						inner = `{"` + term + `":` + sh + `,` + b2 + `}`
					}
					docs := []string{
						inner,
						`{"type":"Create","id":"https://example.com/outer","object":` + inner + `}`,
						`{"type":"Note","id":"https://example.com/outer","tag":["https://example.com/first",` + inner + `]}`,
					}
					for di, d := range docs {
						total++
						e := entryByName["UnmarshalJSON"]
						if di == 0 && (ti+si+bi)%3 == 0 {
							if x := entryByName[[]string{"(*Object).UnmarshalJSON", "(*Actor).UnmarshalJSON", "(*Activity).UnmarshalJSON", "(*Link).UnmarshalJSON", "(*Question).UnmarshalJSON", "(*Place).UnmarshalJSON"}[(ti+si+bi)%6]]; x.name != "" {
								e = x
							}
						}
						cell := fmt.Sprintf("%s mistyped %s shape#%d base#%d pos#%d", e.name, term, si, bi, di)
						if !r.WantCell(cell) {
							continue
						}
						n++
						ds, oc := c04Call(e, []byte(d), false)
						record("mistyped", cell, e, []byte(d), ds, oc, n%4999 == 0)
					}
				}
			}
		}
		r.Cells(total, n)
		r.Exhaustive("mistyped", !r.Replaying())
	}

	// the binary form of a value is a map from member name to bytes: every member of every stored value replaced in turn by payloads of
	// every other kind (nothing, one byte, a number, a string, an empty map, a list of strings, JSON text, the bytes of another member),
	// plus a member nobody knows - well-formed streams whose parts are not what their names promise
	if r.WantLayer("gob-mistyped", true) {
		enc := func(v interface{}) []byte {
			var b bytes.Buffer
			_ = gob.NewEncoder(&b).Encode(v)
			return b.Bytes()
		}
		payloads := [][]byte{{}, {0}, {0xff, 0xff, 0xff}, enc(int64(-5)), enc(uint(7)), enc("https://example.com/str"), enc(map[string][]byte{}), enc(map[string][]byte{"id": []byte("x"), "zz": {1}}), enc([]string{"a", "b"}),
			enc([][]byte{{1}, {}}), enc(3.5), enc(true), []byte(`{"type":"Note"}`), []byte("https://example.com/raw")}
		n, total := 0, 0
		for si, seed := range gobSeeds {
			mm := map[string][]byte{}
			if err := gob.NewDecoder(bytes.NewReader(seed)).Decode(&mm); err != nil || len(mm) == 0 {
				continue
			}
			keys := make([]string, 0, len(mm)+1)
			for k := range mm {
				keys = append(keys, k)
			}
			sort.Strings(keys)
			keys = append(keys, "x-unknown-member")
			for ki, k := range keys {
				alts := append([][]byte{}, payloads...)
				if other, ok := mm[keys[(ki+1)%len(keys)]]; ok {
					alts = append(alts, other) // the bytes of the next member under this member's name
				}
				// members that are maps themselves (endpoints, source, publicKey, language maps): the same one level down
				inner := map[string][]byte{}
				if err := gob.NewDecoder(bytes.NewReader(mm[k])).Decode(&inner); err == nil && len(inner) > 0 {
					ik := make([]string, 0, len(inner)+1)
					for x := range inner {
						ik = append(ik, x)
					}
					sort.Strings(ik)
					for _, x := range append(ik, "x-unknown-member") {
						for _, pl := range payloads[:7] {
							i2 := map[string][]byte{}
							for kk, vv := range inner {
								i2[kk] = vv
							}
							i2[x] = pl
							alts = append(alts, enc(i2))
						}
					}
				}
				for pi, pl := range alts {
					m2 := map[string][]byte{}
					for kk, vv := range mm {
						m2[kk] = vv
					}
					m2[k] = pl
					data := enc(m2)
					for _, en := range []string{"GobDecode", fmt.Sprintf("(*%s).GobDecode", string(mm["type"]))} {
						e, ok := entryByName[en]
						if !ok {
							if e, ok = entryByName[[]string{"(*Object).GobDecode", "(*Actor).GobDecode", "(*Activity).GobDecode", "(*OrderedCollectionPage).GobDecode", "(*Link).GobDecode", "(*Question).GobDecode"}[(si+ki+pi)%6]]; !ok {
								continue
							}
						}
						total++
						cell := fmt.Sprintf("%s gob-mistyped seed#%d %s payload#%d", e.name, si, k, pi)
						if !r.WantCell(cell) {
							continue
						}
						n++
						ds, oc := c04Call(e, data, false)
						record("gob-mistyped", cell, e, data, ds, oc, n%2999 == 0)
					}
				}
			}
		}
		r.Cells(total, n)
		r.Exhaustive("gob-mistyped", !r.Replaying())
	}

	if r.WantLayer("truncation", true) {
		n := 0
		run := func(kind string, seeds [][]byte, classes map[string]bool, maxSeeds int) {
			for si, seed := range seeds {
				if si >= maxSeeds {
					break
				}
				step := 1
				if len(seed) > 600 && !r.Thorough() {
					step = 7
				}
				for cut := 0; cut <= len(seed); cut += step {
					in := seed[:cut]
					for ei, e := range c04Entries {
						if !classes[e.class] {
							continue
						}
						// every prefix at the package entry point; the per-type and helper entry points take turns
						if e.name != "UnmarshalJSON" && e.name != "GobDecode" && (cut+ei)%17 != 0 {
							continue
						}
						cell := fmt.Sprintf("%s %s-seed#%d[:%d]", e.name, kind, si, cut)
						if !r.WantCell(cell) {
							continue
						}
						n++
						ds, oc := c04Call(e, in, false)
						record("truncation", cell, e, in, ds, oc, n%4999 == 0)
					}
				}
			}
		}
		run("json", jsonSeeds, map[string]bool{"json": true, "helper": true, "text": true}, r.Pick(33, 1000))
		run("gob", gobSeeds, map[string]bool{"gob": true}, r.Pick(30, 1000))
		r.Cells(n, n)
	}

	if r.WantLayer("nesting", true) && !r.Replaying() {
		results := runInChildren(t, "nesting", len(nestCells), 10*time.Minute)
		for i, res := range results {
			cell := fmt.Sprintf("nesting %s depth=%d", nestCells[i].shape, nestCells[i].depth)
			r.Case(cell, true, "nesting shape="+nestCells[i].shape)
			if res.Fatal != "" {
				what := "fatal"
				if strings.HasPrefix(res.Fatal, "hang") {
					what = "hang"
				} else if strings.Contains(res.Fatal, "stack") {
					what = "stack-overflow"
				}
				r.Report("nesting", cell, fmt.Sprintf("total %s nesting:%s", what, nestCells[i].shape), res.Fatal, cell)
				continue
			}
			for _, d := range res.Diffs {
				r.Report("nesting", cell, d.Key, d.Detail, cell)
			}
		}
		r.Cells(len(nestCells), len(nestCells))
		r.Exhaustive("nesting", true)
	}

	if r.WantLayer("type-pairs", true) && !r.Replaying() {
		results := runInChildren(t, "type-pairs", nPairs, 15*time.Minute)
		for i, res := range results {
			a, b := pairNames[i/len(pairNames)], pairNames[i%len(pairNames)]
			cell := fmt.Sprintf("type-pair [%s, %s]", a, b)
			r.Case(cell, true, "type-pairs")
			if i%401 == 0 {
				r.Sample(cell, map[string]interface{}{"layer": "type-pairs", "document": string(pairDoc(a, b, 0))})
			}
			if res.Fatal != "" {
				r.Report("type-pairs", cell, "total fatal type-pair", res.Fatal+" | "+cell, cell)
				continue
			}
			for _, d := range res.Diffs {
				r.Report("type-pairs", cell, d.Key, d.Detail+" | "+cell, cell)
			}
		}
		r.Cells(nPairs, nPairs)
		r.Exhaustive("type-pairs", true)
	}

	if r.WantLayer("chains", true) && !r.Replaying() {
		results := runInChildren(t, "chains", len(chainCells), 15*time.Minute)
		hangs := 0
		for i, res := range results {
			cell := fmt.Sprintf("chain %s via %s depth 28", chainCells[i].typ, chainCells[i].term)
			r.Case(cell, true, "chains")
			if i%97 == 0 {
				r.Sample(cell, map[string]interface{}{"layer": "chains", "type": chainCells[i].typ, "term": chainCells[i].term, "document": clipBytes(chainDoc(chainCells[i], 3), 300)})
			}
			if res.Fatal != "" {
				r.Report("chains", cell, fmt.Sprintf("total fatal chain:%s.%s", chainCells[i].typ, chainCells[i].term), res.Fatal, cell)
				continue
			}
			for _, d := range res.Diffs {
				if strings.Contains(d.Key, "hang") {
					hangs++
				}
				r.Report("chains", cell, d.Key, d.Detail, cell)
			}
		}
		r.Cells(len(chainCells), len(chainCells))
		r.Exhaustive("chains", true)
		r.Note("chain_cells", len(chainCells))
	}

	if r.WantLayer("corpus", true) {
		var files []string
		for _, pat := range []string{"testdata/fuzz/FuzzC04/*", filepath.Join(os.Getenv("VERIF_DIR"), "harness/props/testdata/fuzz/FuzzC04/*"), filepath.Join(os.Getenv("VERIF_DIR"), "replays/C04/*.fuzz")} {
			m, _ := filepath.Glob(pat)
			files = append(files, m...)
		}
		sort.Strings(files)
		n := 0
		for _, f := range files {
			sel, data, ok := c04ReadCorpusFile(f)
			if !ok || !r.WantCell(filepath.Base(f)) {
				continue
			}
			n++
			e := c04Entries[int(sel)%len(c04Entries)]
			ds, oc := c04Call(e, data, false)
			record("corpus", filepath.Base(f), e, data, ds, oc, n%7 == 0)
		}
		r.Cells(n, n)
		r.Note("corpus_files", n)
	}

	// ---- structure-aware random mutations
	r.Rapid(t, "structured", r.Pick(5000, 20000), func(t *rapid.T) {
		e := c04Entries[rapid.IntRange(0, len(c04Entries)-1).Draw(t, "entry")]
		var data []byte
		how := ""
		if e.class == "gob" || rapid.IntRange(0, 9).Draw(t, "cross") == 0 {
			seed := gobSeeds[rapid.IntRange(0, len(gobSeeds)-1).Draw(t, "seed")]
			data = append([]byte{}, seed...)
			how = rapid.SampledFrom([]string{"flip", "flip", "length", "truncate", "splice", "zero", "dup"}).Draw(t, "gobmut")
			if len(data) > 0 {
				switch how {
				case "flip":
					for k := rapid.IntRange(1, 4).Draw(t, "nflips"); k > 0; k-- {
						data[rapid.IntRange(0, len(data)-1).Draw(t, "at")] ^= byte(1 << rapid.IntRange(0, 7).Draw(t, "bit"))
					}
				case "length":
					data[rapid.IntRange(0, len(data)-1).Draw(t, "at")] = rapid.SampledFrom([]byte{0xff, 0xfe, 0xfd, 0xf8, 0x7f, 0x80, 0x00}).Draw(t, "lenbyte")
				case "truncate":
					data = data[:rapid.IntRange(0, len(data)).Draw(t, "cut")]
				case "splice":
					other := gobSeeds[rapid.IntRange(0, len(gobSeeds)-1).Draw(t, "other")]
					a, b := rapid.IntRange(0, len(data)).Draw(t, "a"), rapid.IntRange(0, len(other)).Draw(t, "b")
					data = append(append([]byte{}, data[:a]...), other[b:]...)
				case "zero":
					at := rapid.IntRange(0, len(data)-1).Draw(t, "at")
					for i := at; i < len(data) && i < at+8; i++ {
						data[i] = 0
					}
				case "dup":
					data = append(data, data...)
				}
			}
		} else {
			seed := jsonSeeds[rapid.IntRange(0, len(jsonSeeds)-1).Draw(t, "seed")]
			var tree interface{}
			if json.Unmarshal(seed, &tree) != nil {
				tree = map[string]interface{}{"type": "Note"}
			}
			how = rapid.SampledFrom([]string{"kind", "kind", "kind", "nest", "bignum", "dupmember", "badutf8", "hostile", "truncate"}).Draw(t, "jsonmut")
			replacement := func() interface{} {
				return rapid.SampledFrom([]interface{}{nil, true, 0, -1, 1.5, 1e300, "", "x", "https://example.com/z", []interface{}{}, map[string]interface{}{}, []interface{}{nil}, []interface{}{[]interface{}{"https://example.com/q"}},
					map[string]interface{}{"type": "Note"}, map[string]interface{}{"id": 1}, map[string]interface{}{"type": []interface{}{"Note"}}, []interface{}{1, "a", nil, map[string]interface{}{}},
					map[string]interface{}{"en": 1}, map[string]interface{}{"type": "Link", "href": map[string]interface{}{}}}).Draw(t, "replacement")
			}
			var mutate func(n interface{}, budget *int) interface{}
			mutate = func(n interface{}, budget *int) interface{} {
				if *budget == 0 {
					*budget = -1
					if how == "nest" {
						var w interface{} = n
						for i := rapid.IntRange(1, 40).Draw(t, "wrap"); i > 0; i-- {
							w = []interface{}{w}
						}
						return w
					}
					return replacement()
				}
				*budget--
				switch v := n.(type) {
				case map[string]interface{}:
					keys := make([]string, 0, len(v))
					for k := range v {
						keys = append(keys, k)
					}
					sort.Strings(keys)
					out := map[string]interface{}{}
					for _, k := range keys {
						out[k] = mutate(v[k], budget)
					}
					return out
				case []interface{}:
					out := make([]interface{}, len(v))
					for i := range v {
						out[i] = mutate(v[i], budget)
					}
					return out
				}
				return n
			}
			switch how {
			case "kind", "nest":
				budget := rapid.IntRange(0, 40).Draw(t, "node")
				tree = mutate(tree, &budget)
				data, _ = json.Marshal(tree)
			case "bignum":
				data, _ = json.Marshal(tree)
				data = bytes.Replace(data, []byte(`:`), []byte(`:`+rapid.SampledFrom([]string{"1e999999,\"x\":", "-99999999999999999999999999999,\"x\":", "0.00000000000000000000000000000000001,\"x\":"}).Draw(t, "num")), 1)
			case "dupmember":
				data, _ = json.Marshal(tree)
				if len(data) > 2 && data[0] == '{' {
					extra := rapid.SampledFrom([]string{`"type":"Create",`, `"id":1,`, `"to":1,`, `"name":{"a":{"b":1}},`, `"type":null,`}).Draw(t, "extra")
					data = append([]byte("{"+extra), data[1:]...)
				}
			case "badutf8":
				data, _ = json.Marshal(tree)
				if len(data) > 3 {
					at := rapid.IntRange(1, len(data)-2).Draw(t, "at")
					data = append(append(append([]byte{}, data[:at]...), rapid.SampledFrom([][]byte{{0xff}, {0xc3}, {0xed, 0xa0, 0x80}, {0x00}, {'\\', 'u', 'd', '8', '0', '0'}, {'\\'}}).Draw(t, "bad")...), data[at:]...)
				}
			case "hostile":
				data = c04Hostile[rapid.IntRange(0, len(c04Hostile)-1).Draw(t, "hostile")]
			case "truncate":
				data = seed[:rapid.IntRange(0, len(seed)).Draw(t, "cut")]
			}
		}
		ds, oc := c04Call(e, data, rapid.IntRange(0, 19).Draw(t, "measure") == 0)
		nt := oc == "value" || oc == "nil"
		r.Case(e.name+" "+string(data), nt, "structured mutation="+how, "structured outcome="+oc, "structured class="+e.class)
		r.Sample(e.name+string(data), map[string]interface{}{"layer": "structured", "entry": e.name, "mutation": how, "input": clipBytes(data, 160), "outcome": oc})
		failUnknown(r, t, "structured", ds, map[string]interface{}{"entry": e.name, "mutation": how, "input_hex": fmt.Sprintf("%x", data)})
	})
}

// c04ReadCorpusFile reads a Go fuzz corpus file ("go test fuzz v1" with a uint16 and a []byte) or a raw .fuzz replay (2 selector bytes + data).
func c04ReadCorpusFile(path string) (uint16, []byte, bool) {
	b, err := os.ReadFile(path)
	if err != nil {
		return 0, nil, false
	}
	if !bytes.HasPrefix(b, []byte("go test fuzz v1")) {
		if len(b) < 2 {
			return 0, nil, false
		}
		return uint16(b[0])<<8 | uint16(b[1]), b[2:], true
	}
	var sel uint16
	var data []byte
	gotSel, gotData := false, false
	for _, line := range strings.Split(string(b), "\n")[1:] {
		line = strings.TrimSpace(line)
		switch {
		case strings.HasPrefix(line, "uint16("):
			var v int
			fmt.Sscanf(line, "uint16(%d)", &v)
			sel, gotSel = uint16(v), true
		case strings.HasPrefix(line, "[]byte("):
			s := strings.TrimSuffix(strings.TrimPrefix(line, "[]byte("), ")")
			if u, err := strconv.Unquote(s); err == nil {
				data, gotData = []byte(u), true
			}
		}
	}
	return sel, data, gotSel && gotData
}

// FuzzC04 is the native coverage-guided target (thorough tier): a selector picks the entry point, the rest is the input.
func FuzzC04(f *testing.F) {
	jsonSeeds, gobSeeds := c04Seeds()
	for i, e := range c04Entries {
		switch e.class {
		case "gob":
			f.Add(uint16(i), gobSeeds[i%len(gobSeeds)])
		default:
			f.Add(uint16(i), jsonSeeds[i%len(jsonSeeds)])
			f.Add(uint16(i), c04Hostile[(i*7)%len(c04Hostile)])
		}
	}
	known := ev.LoadFindings("C04")
	f.Fuzz(func(t *testing.T, sel uint16, data []byte) {
		if len(data) > 1<<16 {
			return
		}
		for _, d := range c04Target(sel, data) {
			if known.Peek(d.Key) {
				continue // a recorded finding: excluded by construction so that the campaign searches behind it
			}
			t.Fatalf("VIOLATION-KEY property=C04 key=%q detail=%q", d.Key, d.Detail)
		}
	})
}
