package props

import (
	"bytes"
	"encoding"
	"encoding/gob"
	"fmt"
	"reflect"
	"strings"
	"testing"

	ap "github.com/go-ap/activitypub"
	"verif/harness/ev"
	"verif/harness/vocab"
)

// C03 — Gob/binary encode->decode round trip preserves every vocabulary property.
func TestC03(t *testing.T) {
	r := ev.Open(t, "C03")
	defer r.Close(t)
	r.Rule("same three layers as C01 (cells complete at depth 1, everything-set values, random compositions) through three entry pairs: package GobEncode/GobDecode, " +
		"<T>.GobEncode/(*T).GobDecode, <T>.MarshalBinary/(*T).UnmarshalBinary; plus top-level IRI, IRIs, ItemCollection and Link values, plus the helper types (IRI, type, mime type, Content, LangRef, LangRefValue, language lists, Source, IRIs, Endpoints, PublicKey) through their own GobEncode/GobDecode and MarshalBinary/UnmarshalBinary pairs and through encoding/gob's Encoder. Oracle: Diff under the gob normal form " +
		"(only unset==empty and pointer==value; instants equal to the nanosecond, tags and entry order compared) + same concrete Go type. " +
		"non-trivial = at least one property besides id and type set on the root; distinct by canonical dump + entry pair")
	r.Assume("ids within one value are pairwise non-equivalent; durations whole seconds (gob stores them exactly, the bound is only the generator's)")
	runRoundTrips(t, r, "gob-rt", []codec{codecGobPkg, codecGobTyped, codecBinary}, true, r.Pick(2500, 10000))

	if r.WantLayer("toplevel", true) {
		c := &vocab.Counter{}
		tops := []struct {
			name string
			v    ap.Item
		}{
			{"IRI", c.ID("i")},
			{"IRIs2", ap.IRIs{c.ID("i"), c.ID("j")}},
			{"IRIs1", ap.IRIs{c.ID("i")}},
			{"ItemCollection-iris", ap.ItemCollection{c.ID("i"), c.ID("j")}},
			{"ItemCollection-mixed", ap.ItemCollection{c.ID("i"), &ap.Object{ID: c.ID("o"), Type: ap.NoteType, Name: ap.DefaultNaturalLanguageValue("n")}, &ap.Actor{ID: c.ID("p"), Type: ap.PersonType}}},
			{"ItemCollection-link", ap.ItemCollection{&ap.Link{Type: ap.MentionType, Href: c.ID("h")}, c.ID("i")}},
			{"Link", &ap.Link{ID: c.ID("l"), Type: ap.LinkType, Href: c.ID("h"), Name: ap.DefaultNaturalLanguageValue("n")}},
			{"Mention-idless", &ap.Link{Type: ap.MentionType, Href: c.ID("h")}},
		}
		for _, tp := range tops {
			if !r.WantCell(tp.name) {
				continue
			}
			ds, _ := roundTrip(codecGobPkg, tp.v, "gob-rt", "top:"+tp.name)
			r.Case("top "+vocab.Dump(tp.v), true, "toplevel "+tp.name)
			reportAll(r, "toplevel", tp.name, ds, map[string]interface{}{"value": vocab.Dump(tp.v)})
		}
		// a value that says nothing but its type, of every struct type, through all three entry pairs
		n := len(tops)
		for _, st := range vocab.StructTypes {
			p := reflect.New(st)
			p.Elem().FieldByName("Type").SetString(string(vocab.DefaultType[st.Name()]))
			x := p.Interface().(ap.Item)
			for _, c := range []codec{codecGobPkg, codecGobTyped, codecBinary} {
				cell := "typeonly " + st.Name() + " " + c.name
				if !r.WantCell(cell) {
					continue
				}
				n++
				ds, _ := roundTrip(c, x, "gob-rt", st.Name()+".Type")
				r.Case("top "+cell, true, "toplevel typeonly")
				reportAll(r, "toplevel", cell, ds, map[string]interface{}{"value": vocab.Dump(x), "entry": c.name})
			}
		}
		r.Cells(n, n)
	}
	// ---- helper types: every non-struct-vocabulary type with its own GobEncode/GobDecode (and MarshalBinary/UnmarshalBinary) pair,
	// through the method pair(s) and through encoding/gob's Encoder/Decoder (how a value is stored) ----
	if r.WantLayer("helpers", true) {
		total, done := 0, 0
		for _, h := range c03Helpers() {
			for vi, v := range h.values {
				for _, pair := range []string{"gob", "binary", "stdgob"} {
					if pair == "binary" {
						if _, ok := v.(encoding.BinaryMarshaler); !ok {
							continue
						}
					}
					total++
					cell := fmt.Sprintf("%s #%d %s", h.name, vi, pair)
					if !r.WantCell(cell) {
						continue
					}
					done++
					key, detail := c03HelperRoundTrip(h.name, v, pair)
					r.Case(cell+" "+vocab.Dump(v), !reflect.ValueOf(v).IsZero(), "helpers "+h.name, "helpers pair="+pair)
					if done%17 == 0 {
						r.Sample(cell, map[string]interface{}{"layer": "helpers", "type": h.name, "pair": pair, "value": vocab.Dump(v)})
					}
					if key != "" {
						r.Report("helpers", cell, key, detail, map[string]interface{}{"type": h.name, "pair": pair, "value": vocab.Dump(v)})
					}
				}
			}
		}
		r.Cells(total, done)
		r.Exhaustive("helpers", !r.Replaying())
	}
}

type c03Helper struct {
	name   string
	values []interface{}
}

func c03Helpers() []c03Helper {
	texts := []string{"", "plain", "two words", "üñí €", "quo\"te", "back\\slash", "line\nbreak", "nul\x00byte", "\xff\xfe not utf8", "<b>html</b>", " lead and trail ", "{\"a\":1}"}
	var iris, types, mimes, contents, refs, lrvs, nlvs, sources, irisL, eps, pks []interface{}
	for _, t := range texts {
		contents = append(contents, ap.Content(t))
		mimes = append(mimes, ap.MimeType(t))
		types = append(types, ap.ActivityVocabularyType(t))
		lrvs = append(lrvs, ap.LangRefValue{Ref: "en", Value: ap.Content(t)}, ap.LangRefValue{Ref: ap.NilLangRef, Value: ap.Content(t)})
		sources = append(sources, ap.Source{MediaType: "text/markdown", Content: ap.NaturalLanguageValues{{Ref: ap.NilLangRef, Value: ap.Content(t)}}})
		nlvs = append(nlvs, ap.NaturalLanguageValues{{Ref: "en", Value: ap.Content(t)}, {Ref: "fr", Value: ap.Content("autre " + t)}})
	}
	for _, t := range []string{"", "https://example.com/a", "https://example.com/a?x=1&y=2#f", "not a url", "https://example.com/ü/%20", "-", "https://[::1]:8080/x"} {
		iris = append(iris, ap.IRI(t))
	}
	for _, t := range []string{"", "en", "en-GB", "-", "zh-Hant-TW", "x"} {
		refs = append(refs, ap.LangRef(t))
	}
	types = append(types, ap.NoteType, ap.CreateType, ap.OrderedCollectionPageType)
	mimes = append(mimes, ap.MimeType("text/html; charset=utf-8"))
	nlvs = append(nlvs, ap.NaturalLanguageValues{}, ap.NaturalLanguageValues{{Ref: ap.NilLangRef, Value: ap.Content("only")}},
		ap.NaturalLanguageValues{{Ref: "en", Value: ap.Content("a")}, {Ref: ap.NilLangRef, Value: ap.Content("b")}, {Ref: "de", Value: ap.Content("c")}})
	sources = append(sources, ap.Source{}, ap.Source{MediaType: "text/plain"},
		ap.Source{Content: ap.NaturalLanguageValues{{Ref: "en", Value: ap.Content("a")}, {Ref: "fr", Value: ap.Content("b")}}})
	irisL = append(irisL, ap.IRIs{}, ap.IRIs{"https://example.com/1"}, ap.IRIs{"https://example.com/1", "https://example.com/2", "https://example.com/1?x=1"})
	eps = append(eps, ap.Endpoints{}, ap.Endpoints{SharedInbox: ap.IRI("https://example.com/inbox")},
		ap.Endpoints{UploadMedia: ap.IRI("https://example.com/u"), OauthAuthorizationEndpoint: ap.IRI("https://example.com/a"), OauthTokenEndpoint: ap.IRI("https://example.com/t"),
			ProvideClientKey: ap.IRI("https://example.com/p"), SignClientKey: ap.IRI("https://example.com/s"), SharedInbox: ap.IRI("https://example.com/i")},
		ap.Endpoints{SharedInbox: &ap.Actor{ID: "https://example.com/proxy", Type: ap.ServiceType}})
	pks = append(pks, ap.PublicKey{}, ap.PublicKey{ID: "https://example.com/a#main-key", Owner: "https://example.com/a", PublicKeyPem: "-----BEGIN PUBLIC KEY-----\nMIIB\n-----END PUBLIC KEY-----"},
		ap.PublicKey{PublicKeyPem: "pem only"}, ap.PublicKey{ID: "https://example.com/k"}, ap.PublicKey{Owner: "https://example.com/o"})
	return []c03Helper{{"IRI", iris}, {"ActivityVocabularyType", types}, {"MimeType", mimes}, {"Content", contents}, {"LangRef", refs}, {"LangRefValue", lrvs},
		{"NaturalLanguageValues", nlvs}, {"Source", sources}, {"IRIs", irisL}, {"Endpoints", eps}, {"PublicKey", pks}}
}

// c03HelperRoundTrip stores v through one entry pair and compares what comes back with reflect.DeepEqual after the
// unset==empty normal form (nil and zero-length slices/strings are one value).
func c03HelperRoundTrip(name string, v interface{}, pair string) (key, detail string) {
	fresh := reflect.New(reflect.TypeOf(v))
	var err error
	stage := "encode"
	pi := evSafe(func() {
		var b []byte
		switch pair {
		case "gob":
			b, err = v.(gob.GobEncoder).GobEncode()
			if err == nil {
				stage = "decode"
				err = fresh.Interface().(gob.GobDecoder).GobDecode(b)
			}
		case "binary":
			b, err = v.(encoding.BinaryMarshaler).MarshalBinary()
			if err == nil {
				stage = "decode"
				u, ok := fresh.Interface().(encoding.BinaryUnmarshaler)
				if !ok {
					err = fmt.Errorf("*%s has MarshalBinary but no UnmarshalBinary", name)
					return
				}
				err = u.UnmarshalBinary(b)
			}
		case "stdgob":
			var buf bytes.Buffer
			err = gob.NewEncoder(&buf).Encode(v)
			if err == nil {
				stage = "decode"
				err = gob.NewDecoder(&buf).Decode(fresh.Interface())
			}
		}
	})
	if pi != nil {
		return fmt.Sprintf("gob-helper %s %s panic@%s", name, pair, pi.Frame), pi.Value
	}
	if err != nil {
		return fmt.Sprintf("gob-helper %s %s %s-error", name, pair, stage), fmt.Sprintf("%s of %s: %v", stage, vocab.Dump(v), err)
	}
	got := fresh.Elem().Interface()
	if d := vocab.ContentDiff(c03NormEmpty(v), c03NormEmpty(got)); len(d) > 0 {
		return fmt.Sprintf("gob-helper %s %s differs", name, pair), fmt.Sprintf("stored %s, read back %s: %s", vocab.Dump(v), vocab.Dump(got), strings.Join(d, "; "))
	}
	return "", ""
}

// c03NormEmpty maps zero-length slices to nil, recursively (the unset==empty clause).
func c03NormEmpty(v interface{}) interface{} {
	c := vocab.Clone(v)
	p := reflect.New(reflect.TypeOf(c))
	p.Elem().Set(reflect.ValueOf(c))
	var walk func(x reflect.Value)
	walk = func(x reflect.Value) {
		switch x.Kind() {
		case reflect.Ptr, reflect.Interface:
			if !x.IsNil() {
				if x.Kind() == reflect.Interface {
					// interfaces are not settable through Elem(): copy, normalise, store back
					n := reflect.New(x.Elem().Type())
					n.Elem().Set(x.Elem())
					walk(n.Elem())
					if x.CanSet() {
						x.Set(n.Elem())
					}
					return
				}
				walk(x.Elem())
			}
		case reflect.Struct:
			for i := 0; i < x.NumField(); i++ {
				if x.Type().Field(i).IsExported() {
					walk(x.Field(i))
				}
			}
		case reflect.Slice:
			if x.Len() == 0 {
				if x.CanSet() {
					x.Set(reflect.Zero(x.Type()))
				}
				return
			}
			for i := 0; i < x.Len(); i++ {
				walk(x.Index(i))
			}
		}
	}
	walk(p.Elem())
	return p.Elem().Interface()
}
