package props

import (
	"fmt"
	"testing"

	ap "github.com/go-ap/activitypub"
	"verif/harness/ev"
	"verif/harness/vocab"
)

// C03 — Gob/binary encode->decode round trip preserves every vocabulary property.
func TestC03(t *testing.T) {
	r := ev.Open(t, "C03")
	defer r.Close(t)
	r.Rule("same three layers as C01 (cells complete at depth 1, everything-set values, random compositions) through three entry pairs: package GobEncode/GobDecode, " +
		"<T>.GobEncode/(*T).GobDecode, <T>.MarshalBinary/(*T).UnmarshalBinary; plus top-level IRI, IRIs, ItemCollection and Link values. Oracle: Diff under the gob normal form " +
		"(only unset==empty and pointer==value; instants equal to the nanosecond, tags and entry order compared) + same concrete Go type. " +
		"non-trivial = at least one property besides id and type set on the root; distinct by canonical dump + entry pair")
	r.Assume("ids within one value are pairwise non-equivalent; durations whole seconds (gob stores them exactly, the bound is only the generator's)")
	runRoundTrips(t, r, "gob-rt", []codec{codecGobPkg, codecGobTyped, codecBinary}, true, r.Pick(2500, 10000))

	if r.WantLayer("toplevel", true) {
		c := &vocab.Counter{}
		tops := []struct {
			name string
			v    ap.Item
		}{
			{"IRI", c.ID("i")},
			{"IRIs2", ap.IRIs{c.ID("i"), c.ID("j")}},
			{"IRIs1", ap.IRIs{c.ID("i")}},
			{"ItemCollection-iris", ap.ItemCollection{c.ID("i"), c.ID("j")}},
			{"ItemCollection-mixed", ap.ItemCollection{c.ID("i"), &ap.Object{ID: c.ID("o"), Type: ap.NoteType, Name: ap.DefaultNaturalLanguageValue("n")}, &ap.Actor{ID: c.ID("p"), Type: ap.PersonType}}},
			{"ItemCollection-link", ap.ItemCollection{&ap.Link{Type: ap.MentionType, Href: c.ID("h")}, c.ID("i")}},
			{"Link", &ap.Link{ID: c.ID("l"), Type: ap.LinkType, Href: c.ID("h"), Name: ap.DefaultNaturalLanguageValue("n")}},
			{"Mention-idless", &ap.Link{Type: ap.MentionType, Href: c.ID("h")}},
		}
		for _, tp := range tops {
			if !r.WantCell(tp.name) {
				continue
			}
			ds, _ := roundTrip(codecGobPkg, tp.v, "gob-rt", "top:"+tp.name)
			r.Case("top "+vocab.Dump(tp.v), true, "toplevel "+tp.name)
			reportAll(r, "toplevel", tp.name, ds, map[string]interface{}{"value": vocab.Dump(tp.v)})
		}
		r.Cells(len(tops), len(tops))
	}
	_ = fmt.Sprint
}
