package props

import (
	"fmt"
	"sort"
	"strings"
	"testing"

	ap "github.com/go-ap/activitypub"
	"pgregory.net/rapid"
	"verif/harness/ev"
)

// C19 — Language-value containers behave as ordered maps from language tag to text.

type nlOp struct {
	Kind string // set | append | add
	Tag  ap.LangRef
	Text string
}

func (o nlOp) String() string { return fmt.Sprintf("%s(%s,%q)", o.Kind, o.Tag, o.Text) }

type nlEntry struct {
	Tag  ap.LangRef
	Text string
}

// nlModel is the reference ordered map (a list of tag/text entries).
type nlModel []nlEntry

func (m nlModel) get(t ap.LangRef) (string, bool) {
	for _, e := range m {
		if e.Tag == t {
			return e.Text, true
		}
	}
	return "", false
}

func (m nlModel) apply(o nlOp) nlModel {
	switch o.Kind {
	case "set":
		for i := range m {
			if m[i].Tag == o.Tag {
				out := append(nlModel{}, m...)
				out[i].Text = o.Text
				return out
			}
		}
		return append(append(nlModel{}, m...), nlEntry{o.Tag, o.Text})
	default:
		return append(append(nlModel{}, m...), nlEntry{o.Tag, o.Text})
	}
}

func nlApply(n *ap.NaturalLanguageValues, o nlOp) {
	switch o.Kind {
	case "set":
		_ = n.Set(o.Tag, ap.Content(o.Text))
	case "append":
		_ = n.Append(o.Tag, ap.Content(o.Text))
	case "add":
		n.Add(ap.LangRefValue{Ref: o.Tag, Value: ap.Content(o.Text)})
	}
}

// nlCheck compares the stated observables after one step: Count, First, the sequence of tags, Get per tag.
// prev is the model before the step, used for the Set-specific clauses.
func nlCheck(n ap.NaturalLanguageValues, m, prev nlModel, o nlOp, tags []ap.LangRef) (string, string) {
	if int(n.Count()) != len(m) {
		return "nlv count after-" + o.Kind, fmt.Sprintf("Count() = %d, model has %d entries", n.Count(), len(m))
	}
	if len(n) != len(m) {
		return "nlv length after-" + o.Kind, fmt.Sprintf("len = %d, model has %d entries", len(n), len(m))
	}
	if len(m) > 0 {
		f := n.First()
		if f.Ref != m[0].Tag || string(f.Value) != m[0].Text {
			return "nlv first after-" + o.Kind, fmt.Sprintf("First() = %s:%q, model %s:%q", f.Ref, f.Value, m[0].Tag, m[0].Text)
		}
	}
	for i := range m {
		if n[i].Ref != m[i].Tag {
			return "nlv order after-" + o.Kind, fmt.Sprintf("entry %d has tag %s, model %s", i, n[i].Ref, m[i].Tag)
		}
	}
	for _, t := range tags {
		want, ok := m.get(t)
		got := n.Get(t)
		if !ok && got != nil {
			return "nlv get-absent after-" + o.Kind, fmt.Sprintf("Get(%s) = %q for an absent tag", t, got)
		}
		if ok && string(got) != want {
			cls := "get"
			if o.Kind == "set" && t != o.Tag {
				cls = "get-other-tag"
			}
			return "nlv " + cls + " after-" + o.Kind, fmt.Sprintf("Get(%s) = %q, model %q", t, got, want)
		}
	}
	if o.Kind == "set" && len(m) > len(prev)+1 {
		return "nlv set-grows", "Set grew the list by more than one"
	}
	return "", ""
}

func nlOpsString(ops []nlOp) string {
	var s []string
	for _, o := range ops {
		s = append(s, o.String())
	}
	return strings.Join(s, " ")
}

func TestC19(t *testing.T) {
	r := ev.Open(t, "C19")
	defer r.Close(t)
	r.Rule("histories: every sequence of Set/Append/Add over 3 tags (nil tag, en, fr; and, one step shorter, the empty tag, the nil tag, en) x 2 texts up to the length bound, then random longer ones over 5 tags (incl. the empty one) x 4 texts; " +
		"after every step Count, First, the tag sequence and Get(tag) for every tag are compared with a reference list of (tag,text) entries. " +
		"equality: all ordered pairs of lists without repeated tags of length <= 3 over (nil tag, en, fr), and of length <= 2 over (en, EN, nil tag, empty tag): Equals(a,b) iff same set of pairs, both lists unchanged by the comparison and a second comparison agreeing with the first; every list also against its own prefixes and against itself extended into its spare capacity (operands sharing one backing array). " +
		"non-trivial history = contains a Set on a present tag after >= 2 entries; non-trivial pair = both lists have >= 2 entries; distinct by op sequence / pair")

	tags3 := []ap.LangRef{ap.NilLangRef, "en", "fr"}
	texts2 := []string{"one", "two"}
	var ops []nlOp
	for _, k := range []string{"set", "append", "add"} {
		for _, tg := range tags3 {
			for _, tx := range texts2 {
				ops = append(ops, nlOp{k, tg, tx})
			}
		}
	}
	// a second alphabet holds the empty tag next to the nil tag: two different keys of the map
	tagsE := []ap.LangRef{"", ap.NilLangRef, "en"}
	var opsE []nlOp
	for _, k := range []string{"set", "append", "add"} {
		for _, tg := range tagsE {
			for _, tx := range texts2 {
				opsE = append(opsE, nlOp{k, tg, tx})
			}
		}
	}
	// a third one holds a language next to two of its regional variants: three different keys, none standing in for another
	tagsR := []ap.LangRef{"en", "en-US", "en-GB"}
	var opsR []nlOp
	for _, k := range []string{"set", "append", "add"} {
		for _, tg := range tagsR {
			for _, tx := range texts2 {
				opsR = append(opsR, nlOp{k, tg, tx})
			}
		}
	}
	if r.WantLayer("histories", true) {
		total := 0
		for pass, ops := range [][]nlOp{ops, opsE, opsR} {
			maxLen := r.Pick(4, 5)
			tags3 := tags3
			if pass == 2 {
				maxLen, tags3 = r.Pick(3, 4), tagsR
			}
			if pass == 1 {
				maxLen, tags3 = r.Pick(3, 4), tagsE
			}
			var rec func(prefix []nlOp, n ap.NaturalLanguageValues, m nlModel, nt bool)
			rec = func(prefix []nlOp, n ap.NaturalLanguageValues, m nlModel, nt bool) {
				if len(prefix) > 0 {
					total++
					cell := nlOpsString(prefix)
					r.Case(cell, nt, fmt.Sprintf("histories len=%d", len(prefix)), fmt.Sprintf("histories alphabet=%d", pass))
					if total%20011 == 0 {
						r.Sample(cell, map[string]interface{}{"layer": "histories", "ops": cell, "final": fmt.Sprint(m)})
					}
				}
				if len(prefix) == maxLen {
					return
				}
				for _, o := range ops {
					cell := nlOpsString(append(prefix, o))
					if r.Replaying() && !strings.HasPrefix(r.ReplayCell(), cell) {
						continue
					}
					n2 := append(ap.NaturalLanguageValues(nil), n...)
					var key, detail string
					m2 := m.apply(o)
					pi := evSafe(func() {
						nlApply(&n2, o)
						key, detail = nlCheck(n2, m2, m, o, tags3)
					})
					if pi != nil {
						key, detail = "nlv panic@"+pi.Frame, pi.Value
					}
					if key != "" {
						r.Report("histories", cell, key, "after "+cell+": "+detail, map[string]interface{}{"ops": cell})
						continue // the implementation diverged from the model; deeper steps would only repeat it
					}
					_, present := m.get(o.Tag)
					rec(append(prefix, o), n2, m2, nt || (o.Kind == "set" && present && len(m) >= 2))
				}
			}
			rec(nil, nil, nil, false)
		}
		r.Cells(total, total)
		r.Exhaustive("histories", !r.Replaying())
		r.Note("history_length_bound", r.Pick(4, 5))
	}

	if r.WantLayer("equality", true) {
		// all lists without repeated tags, length <= 3, every order
		type nl = ap.NaturalLanguageValues
		var lists []nl
		var build func(cur nl, used map[ap.LangRef]bool)
		eqTags, eqLen := tags3, 3
		build = func(cur nl, used map[ap.LangRef]bool) {
			lists = append(lists, append(nl(nil), cur...))
			if len(cur) == eqLen {
				return
			}
			for _, tg := range eqTags {
				if used[tg] {
					continue
				}
				for _, tx := range []string{"one", "two", ""} { // an entry may hold an empty text: (tag, "") is a pair like any other
					used[tg] = true
					v := ap.Content(tx)
					if tx == "" && tg == "fr" {
						v = nil // empty as nil and as zero-length text
					}
					build(append(cur, ap.LangRefValue{Ref: tg, Value: v}), used)
					used[tg] = false
				}
			}
		}
		build(nil, map[ap.LangRef]bool{})
		// tags are compared as written: a tag in another letter case, and the empty tag next to the nil tag, are other keys
		eqTags, eqLen = []ap.LangRef{"en", "EN", ap.NilLangRef, ""}, 2
		nFirst := len(lists)
		build(nil, map[ap.LangRef]bool{})
		caseLists := lists[nFirst:]
		lists = lists[:nFirst]
		setOf := func(l nl) string {
			var ps []string
			for _, e := range l {
				ps = append(ps, string(e.Ref)+"="+string(e.Value))
			}
			sort.Strings(ps)
			return strings.Join(ps, ",")
		}
		n := 0
		type pair struct{ a, b nl }
		var pairs []pair
		for _, a := range lists {
			for _, b := range lists {
				pairs = append(pairs, pair{a, b})
			}
		}
		for _, a := range caseLists {
			for _, b := range caseLists {
				pairs = append(pairs, pair{a, b})
			}
		}
		// a list that was never set, one that was set to nothing, one that was emptied: all hold the same pairs - none
		empties := []nl{nil, {}, make(nl, 0, 4), nl{{Ref: "en", Value: ap.Content("gone")}}[:0]}
		for _, a := range empties {
			for _, b := range empties {
				pairs = append(pairs, pair{a, b})
			}
			for _, b := range lists[:8] {
				pairs = append(pairs, pair{a, b}, pair{b, a})
			}
		}
		for i, pr := range pairs {
			for j := 0; j < 1; j++ {
				a, b := pr.a, pr.b
				cell := fmt.Sprintf("%q == %q", a, b)
				if len(a) == 0 || len(b) == 0 {
					cell = fmt.Sprintf("%q(nil=%v,cap=%d) == %q(nil=%v,cap=%d)", a, a == nil, cap(a), b, b == nil, cap(b))
				}
				if !r.WantCell(cell) {
					continue
				}
				n++
				want := setOf(a) == setOf(b)
				// each comparison gets its own copies (with spare capacity): comparing reads both lists, and leaves both as they were
				spare := func(l nl) nl {
					if l == nil {
						return nil // a list that was never set stays one
					}
					out := make(nl, len(l), len(l)+2)
					copy(out, l)
					return out
				}
				origA, origB := fmt.Sprintf("%q", a), fmt.Sprintf("%q", b)
				a, b = spare(a), spare(b)
				var got, again bool
				pi := evSafe(func() { got = a.Equals(b); again = a.Equals(b) })
				if pi == nil && (fmt.Sprintf("%q", a) != origA || fmt.Sprintf("%q", b) != origB) {
					r.Report("equality", cell, "nlv equals changes-operand", fmt.Sprintf("after %s.Equals(%s) the lists are %q and %q", origA, origB, a, b), cell)
				} else if pi == nil && again != got {
					r.Report("equality", cell, "nlv equals unstable", fmt.Sprintf("%s.Equals(%s) = %v, then %v", origA, origB, got, again), cell)
				}
				r.Case(cell, len(a) >= 2 && len(b) >= 2, fmt.Sprintf("equality len=%d,%d", len(a), len(b)))
				if (i*31+j)%1999 == 0 {
					r.Sample(cell, map[string]interface{}{"layer": "equality", "a": fmt.Sprint(a), "b": fmt.Sprint(b), "expected": want, "got": got})
				}
				if pi != nil {
					r.Report("equality", cell, "nlv panic@"+pi.Frame, pi.Value, cell)
				} else if got != want {
					cls := "len<2"
					if len(a) >= 2 || len(b) >= 2 {
						cls = "len>=2"
					}
					w := "ne"
					if want {
						w = "eq"
					}
					r.Report("equality", cell, "nlv equals "+cls+" want="+w, fmt.Sprintf("%v.Equals(%v) = %v, want %v", a, b, got, want), cell)
				}
			}
		}
		// operands that share their storage: a list against its own prefixes, and against itself extended into its spare capacity
		// (g := l; g.Append(...)).  The same first entry at the same address, and different pairs all the same
		for _, a := range lists {
			if len(a) == 0 {
				continue
			}
			s := make(nl, len(a), len(a)+2)
			copy(s, a)
			ext := append(s, ap.LangRefValue{Ref: "zz", Value: ap.Content("extension")})
			type ap2 struct {
				name string
				x, y nl
			}
			cases := []ap2{{"extended", s, ext}, {"extended-rev", ext, s}}
			for k := 0; k < len(s); k++ {
				cases = append(cases, ap2{fmt.Sprintf("prefix%d", k), s, s[:k]}, ap2{fmt.Sprintf("prefix%d-rev", k), s[:k], s})
			}
			for _, c := range cases {
				cell := fmt.Sprintf("aliased %s %q", c.name, a)
				if !r.WantCell(cell) {
					continue
				}
				n++
				want := setOf(c.x) == setOf(c.y)
				var got bool
				pi := evSafe(func() { got = c.x.Equals(c.y) })
				r.Case(cell, len(a) >= 2, "equality aliased")
				if pi != nil {
					r.Report("equality", cell, "nlv panic@"+pi.Frame, pi.Value, cell)
				} else if got != want {
					r.Report("equality", cell, "nlv equals aliased "+strings.TrimSuffix(strings.TrimRight(c.name, "0123456789"), "-rev"), fmt.Sprintf("%q.Equals(%q) = %v, want %v (the two share one backing array)", c.x, c.y, got, want), cell)
				}
			}
		}
		r.Cells(n, n)
		r.Exhaustive("equality", !r.Replaying())
	}

	tags4 := []ap.LangRef{ap.NilLangRef, "en", "fr", "de", "", "en-US", "fr-CA-x"}
	texts4 := []string{"one", "two", "", "drei"}
	r.Rapid(t, "random", r.Pick(3000, 20000), func(t *rapid.T) {
		nops := rapid.IntRange(1, 30).Draw(t, "n")
		// the package's configurable default language is a setting of the convenience constructors: the container behaves the same under it
		if rapid.IntRange(0, 3).Draw(t, "default-lang") == 0 {
			saved := ap.DefaultLang
			ap.DefaultLang = rapid.SampledFrom([]ap.LangRef{"en", "fr", ""}).Draw(t, "lang")
			defer func() { ap.DefaultLang = saved }()
		}
		var n ap.NaturalLanguageValues
		var m nlModel
		var hist []nlOp
		nt := false
		for i := 0; i < nops; i++ {
			o := nlOp{rapid.SampledFrom([]string{"set", "set", "append", "add"}).Draw(t, "op"), rapid.SampledFrom(tags4).Draw(t, "tag"), rapid.SampledFrom(texts4).Draw(t, "text")}
			hist = append(hist, o)
			m2 := m.apply(o)
			if _, present := m.get(o.Tag); present && o.Kind == "set" && len(m) >= 2 {
				nt = true
			}
			var key, detail string
			pi := evSafe(func() {
				nlApply(&n, o)
				key, detail = nlCheck(n, m2, m, o, tags4)
			})
			if pi != nil {
				key, detail = "nlv panic@"+pi.Frame, pi.Value
			}
			m = m2
			if key != "" {
				r.Case(nlOpsString(hist), nt, "random diverged")
				failUnknown(r, t, "random", []keyed{{key, "after " + nlOpsString(hist) + ": " + detail}}, map[string]interface{}{"ops": nlOpsString(hist)})
				return
			}
		}
		canon := nlOpsString(hist)
		r.Case(canon, nt, fmt.Sprintf("random len<=%d", (nops/10+1)*10))
		r.Sample(canon, map[string]interface{}{"layer": "random", "ops": canon})
	})
}
