package props

import (
	"fmt"
	"sort"
	"strings"

	"pgregory.net/rapid"
	"verif/harness/ev"
)

var evSafe = ev.Safe

// failUnknown is the tail of every rapid property: differences masked by known findings are counted, the first
// unmasked one fails the case (rapid then shrinks it; the minimal case becomes the replay file).
func failUnknown(r *ev.Rec, t *rapid.T, layer string, ds []keyed, dump interface{}) {
	sort.SliceStable(ds, func(i, j int) bool { return ds[i].Key < ds[j].Key })
	for _, d := range ds {
		if !r.Known(d.Key) {
			r.Pending(layer, d.Key, d.Detail, dump)
			t.Fatalf("%s: %s", d.Key, d.Detail)
		}
	}
}

// reportAll is the tail of every enumerated cell.
func reportAll(r *ev.Rec, layer, cell string, ds []keyed, dump interface{}) {
	for _, d := range ds {
		r.Report(layer, cell, d.Key, d.Detail, dump)
	}
}

func joinKeys(ds []keyed) string {
	var ks []string
	for _, d := range ds {
		ks = append(ks, d.Key)
	}
	return strings.Join(ks, "; ")
}

var _ = fmt.Sprint
