package props

import (
	"fmt"
	"os"
	"path/filepath"
	"sort"
	"strconv"
	"strings"
	"time"

	"pgregory.net/rapid"
	"verif/harness/ev"
)

// evSafeLimit: no library call in these checks takes more than milliseconds; five minutes is out of reach of any load the machine can be
// under (the first version used one minute and time.After: the histories layer of C13's thorough tier makes millions of calls per minute,
// each left a pending timer behind, and on a saturated machine one call was reported as hanging - a false alarm, corrected).
const evSafeLimit = 5 * time.Minute

// evSafe runs one call into the library: a panic becomes a PanicInfo, and so does a call that does not return within evSafeLimit
// (no library call in these checks takes more than milliseconds; the frame "hang" makes it a keyed difference like a panic, and it
// is printed at once, so that the driver still has it when the runaway goroutine later exhausts memory or the time limit).
func evSafe(fn func()) *ev.PanicInfo {
	pi, ok := ev.Timed(evSafeLimit, fn)
	if !ok {
		return &ev.PanicInfo{Value: fmt.Sprintf("the call did not return within %v", evSafeLimit), Frame: "hang"}
	}
	return pi
}

// failUnknown is the tail of every rapid property: differences masked by known findings are counted, the first
// unmasked one fails the case (rapid then shrinks it; the minimal case becomes the replay file).
func failUnknown(r *ev.Rec, t *rapid.T, layer string, ds []keyed, dump interface{}) {
	sort.SliceStable(ds, func(i, j int) bool { return ds[i].Key < ds[j].Key })
	for _, d := range ds {
		if !r.Known(d.Key) {
			r.Pending(layer, d.Key, d.Detail, dump)
			t.Fatalf("%s: %s", d.Key, d.Detail)
		}
	}
}

// reportAll is the tail of every enumerated cell.
func reportAll(r *ev.Rec, layer, cell string, ds []keyed, dump interface{}) {
	for _, d := range ds {
		r.Report(layer, cell, d.Key, d.Detail, dump)
	}
}

func joinKeys(ds []keyed) string {
	var ks []string
	for _, d := range ds {
		ks = append(ks, d.Key)
	}
	return strings.Join(ks, "; ")
}

var _ = fmt.Sprint

// fuzzFiles lists the saved inputs of a native fuzz target: the committed corpus and the crashers kept under replays/<ID>.
func fuzzFiles(target, id string) []string {
	var files []string
	for _, pat := range []string{"testdata/fuzz/" + target + "/*", filepath.Join(os.Getenv("VERIF_DIR"), "harness/props/testdata/fuzz/"+target+"/*"),
		filepath.Join(os.Getenv("VERIF_DIR"), "replays/"+id+"/*.fuzz"), filepath.Join(os.Getenv("VERIF_REPLAYS_DIR"), id+"/*.fuzz")} {
		m, _ := filepath.Glob(pat)
		files = append(files, m...)
	}
	sort.Strings(files)
	var out []string
	for i, f := range files {
		if i == 0 || files[i-1] != f {
			out = append(out, f)
		}
	}
	return out
}

// readFuzzArgs parses a "go test fuzz v1" corpus file into its arguments (strings, byte slices as strings, unsigned and signed integers).
func readFuzzArgs(path string) ([]interface{}, bool) {
	b, err := os.ReadFile(path)
	if err != nil || !strings.HasPrefix(string(b), "go test fuzz v1") {
		return nil, false
	}
	var out []interface{}
	for _, line := range strings.Split(string(b), "\n")[1:] {
		line = strings.TrimSpace(line)
		if line == "" {
			continue
		}
		open := strings.Index(line, "(")
		if open < 0 || !strings.HasSuffix(line, ")") {
			return nil, false
		}
		typ, arg := line[:open], line[open+1:len(line)-1]
		switch typ {
		case "string", "[]byte":
			u, err := strconv.Unquote(arg)
			if err != nil {
				return nil, false
			}
			out = append(out, u)
		case "uint8", "uint16", "uint32", "uint64", "uint", "byte":
			if strings.HasPrefix(arg, "'") {
				r, _, _, err := strconv.UnquoteChar(arg[1:], '\'')
				if err != nil {
					return nil, false
				}
				out = append(out, uint64(r))
				continue
			}
			v, err := strconv.ParseUint(arg, 0, 64)
			if err != nil {
				return nil, false
			}
			out = append(out, v)
		case "int8", "int16", "int32", "int64", "int":
			v, err := strconv.ParseInt(arg, 0, 64)
			if err != nil {
				return nil, false
			}
			out = append(out, v)
		case "bool":
			out = append(out, arg == "true")
		default:
			return nil, false
		}
	}
	return out, true
}
