package props

import (
	"fmt"
	"net/url"
	"path"
	"reflect"
	"strings"
	"testing"

	ap "github.com/go-ap/activitypub"
	"pgregory.net/rapid"
	"verif/harness/ev"
	"verif/harness/oracle"
	"verif/harness/vocab"
)

// C15 — Collection IRIs and their owners convert back and forth consistently.

var c15Names = []ap.CollectionPath{ap.Inbox, ap.Outbox, ap.Followers, ap.Following, ap.Liked, ap.Likes, ap.Shares, ap.Replies}

func c15IsCollectionName(s string) bool {
	for _, n := range c15Names {
		if strings.EqualFold(string(n), s) {
			return true
		}
	}
	return false
}

// c15LastSegment is the cleaned last path segment of an owner IRI.
func c15LastSegment(o string) string {
	u, err := url.Parse(o)
	if err != nil {
		return ""
	}
	p := u.Path
	if p == "" {
		return ""
	}
	return path.Base(path.Clean(p))
}

func c15Features(o string) []string {
	var f []string
	u, _ := url.Parse(o)
	if strings.HasSuffix(o, "/") {
		f = append(f, "trailing-slash")
	}
	if u != nil && u.Port() != "" {
		f = append(f, "port")
	}
	if strings.Contains(o, "%") {
		f = append(f, "escape")
	}
	if u != nil {
		for _, seg := range strings.Split(u.Path, "/") {
			if c15IsCollectionName(seg) {
				f = append(f, "collection-named-segment")
				break
			}
		}
	}
	if len(f) == 0 {
		f = append(f, "plain")
	}
	return f
}

// c15Owner checks the IRI-level laws for one owner x collection name.
func c15Owner(o string, c ap.CollectionPath) (ds []keyed) {
	feat := strings.Join(c15Features(o), "+")
	add := func(law, detail string) { ds = append(ds, keyed{fmt.Sprintf("typer %s %s", law, feat), detail}) }
	pi := evSafe(func() {
		built := ap.IRIf(ap.IRI(o), c)
		back, name := ap.Split(built)
		if name != c {
			add("split-name", fmt.Sprintf("Split(IRIf(%q, %s)) = (%q, %q): wrong collection name", o, c, string(back), string(name)))
		} else if !oracle.EquivIRI(string(back), o, true) {
			add("split-owner", fmt.Sprintf("Split(IRIf(%q, %s)) = (%q, %q): owner not equivalent", o, c, string(back), string(name)))
		} else if !ap.IRI(o).Equals(back, true) || !back.Equals(ap.IRI(o), true) {
			// equivalent by the reference, and by the library's own word too (what a caller would test it with)
			add("split-owner-equals", fmt.Sprintf("Split(IRIf(%q, %s)) returned the owner %q, which the library's Equals does not take for %q", o, c, string(back), o))
		}
		viaHelper := c.IRI(ap.IRI(o))
		owner, err := c.OfActor(viaHelper)
		if err != nil {
			add("ofactor-error", fmt.Sprintf("%s.OfActor(%s.IRI(%q) = %q) failed: %v", c, c, o, viaHelper, err))
		} else if !oracle.EquivIRI(string(owner), o, true) {
			add("ofactor-owner", fmt.Sprintf("%s.OfActor(%q) = %q, not equivalent to %q", c, viaHelper, owner, o))
		}
		if !ap.ValidCollectionIRI(built) {
			add("valid-built", fmt.Sprintf("ValidCollectionIRI(%q) is false", built))
		}
		if !c15IsCollectionName(c15LastSegment(o)) && ap.ValidCollectionIRI(ap.IRI(o)) {
			add("valid-owner", fmt.Sprintf("ValidCollectionIRI(%q) is true for an owner whose last segment is no collection name", o))
		}
	})
	if pi != nil {
		ds = append(ds, keyed{"typer panic@" + pi.Frame + " " + feat, pi.Value})
	}
	return ds
}

// c15Item checks the collection helper on objects and actors with and without explicit collection properties.
func c15Item(kind string, id string, c ap.CollectionPath, explicit string) (ds []keyed, hasExplicit bool) {
	label := kind
	claimed, claims := "", false
	if i := strings.Index(kind, "#"); i >= 0 {
		claimed, claims = strings.TrimSuffix(kind[i+1:], "/val"), true
		if strings.HasSuffix(kind, "/val") {
			kind = kind[:i] + "/val"
		} else {
			kind = kind[:i]
		}
	}
	var x ap.Item
	fieldOf := map[ap.CollectionPath]string{ap.Inbox: "Inbox", ap.Outbox: "Outbox", ap.Followers: "Followers", ap.Following: "Following", ap.Liked: "Liked",
		ap.Likes: "Likes", ap.Shares: "Shares", ap.Replies: "Replies"}
	switch strings.TrimSuffix(kind, "/val") {
	case "actor":
		x = &ap.Actor{ID: ap.IRI(id), Type: ap.PersonType}
	case "object":
		x = &ap.Object{ID: ap.IRI(id), Type: ap.NoteType}
	default:
		// any other object type as the owner (kind = its Go type): a collection is an object too, and owns collections the same way;
		// the ones that hold members hold one, which has nothing to do with the collections the holder owns
		gt := strings.TrimSuffix(kind, "/val")
		p := reflect.New(vocab.StructType(gt))
		p.Elem().FieldByName("ID").SetString(id)
		p.Elem().FieldByName("Type").SetString(string(vocab.DefaultType[gt]))
		for _, n := range []string{"Items", "OrderedItems"} {
			if f := p.Elem().FieldByName(n); f.IsValid() {
				f.Set(reflect.ValueOf(ap.ItemCollection{ap.IRI("https://example.com/members/1"), &ap.Actor{ID: "https://example.com/members/2", Type: ap.PersonType}}))
			}
		}
		x = p.Interface().(ap.Item)
	}
	// "<kind>/val": the same owner handed over by value instead of by pointer; "<kind>#<Type>": the owner says it is a <Type>,
	// whatever struct holds it (a Person in an Object struct is what a decoder produces for a sparse document)
	byValue := strings.HasSuffix(kind, "/val")
	if claims {
		reflect.ValueOf(x).Elem().FieldByName("Type").SetString(claimed)
	}
	var want ap.Item
	f := reflect.ValueOf(x).Elem().FieldByName(fieldOf[c])
	if f.IsValid() && explicit != "" {
		var ex ap.Item
		switch explicit {
		case "iri":
			ex = ap.IRI("https://elsewhere.example.net/custom/" + string(c))
		case "collection":
			ex = &ap.OrderedCollection{ID: ap.IRI("https://elsewhere.example.net/embedded/" + string(c)), Type: ap.OrderedCollectionType, TotalItems: 2}
		case "collection-idless":
			// an embedded collection that has no id of its own (a count and a first page inlined in the owner): still the explicit one
			ex = &ap.OrderedCollection{Type: ap.OrderedCollectionType, TotalItems: 2, First: ap.IRI("https://elsewhere.example.net/embedded/first")}
		}
		f.Set(reflect.ValueOf(&ex).Elem())
		want = ex
		hasExplicit = true
	}
	cls := label + " " + string(c)
	if byValue {
		x = reflect.ValueOf(x).Elem().Interface().(ap.Item)
	}
	pi := evSafe(func() {
		gotIRI := c.IRI(x)
		gotOf := c.Of(x)
		if want != nil && explicit == "collection-idless" {
			if gotOf != want {
				ds = append(ds, keyed{"typer item explicit-of-idless " + cls, fmt.Sprintf("%s.Of(%s with an embedded %s that has no id) = %v, not the embedded collection", c, kind, c, gotOf)})
			}
			return
		}
		if want != nil {
			if gotIRI != want.GetLink() {
				ds = append(ds, keyed{"typer item explicit-iri " + cls, fmt.Sprintf("%s.IRI(%s with explicit %s %q) = %q", c, kind, c, want.GetLink(), gotIRI)})
			}
			if gotOf == nil || gotOf.GetLink() != want.GetLink() {
				ds = append(ds, keyed{"typer item explicit-of " + cls, fmt.Sprintf("%s.Of(%s with explicit %s %q) = %v", c, kind, c, want.GetLink(), gotOf)})
			}
			return
		}
		built := ap.IRIf(ap.IRI(id), c)
		if !oracle.EquivIRI(string(gotIRI), string(built), true) {
			ds = append(ds, keyed{"typer item built-iri " + cls, fmt.Sprintf("%s.IRI(%s %q) = %q, want ≡ %q", c, kind, id, gotIRI, built)})
		}
		if gotOf == nil || !oracle.EquivIRI(string(gotOf.GetLink()), string(built), true) {
			ds = append(ds, keyed{"typer item built-of " + cls, fmt.Sprintf("%s.Of(%s %q) = %v, want ≡ %q", c, kind, id, gotOf, built)})
		}
	})
	if pi != nil {
		ds = append(ds, keyed{"typer panic@" + pi.Frame + " item " + cls, pi.Value})
	}
	return ds, hasExplicit
}

func TestC15(t *testing.T) {
	r := ev.Open(t, "C15")
	defer r.Close(t)
	r.Assume("an Actor struct is given an actor type name (the helper looks the actor-side collections up by the type name; an Actor struct that calls itself a Note is not an actor)")
	r.Rule("owners: scheme x host(+port) x 0..3 path segments from an alphabet with unreserved characters, percent-escapes, ~ and collection names, optional trailing slashes, no query/fragment, x all 8 collection names: " +
		"Split(IRIf(o,c)) returns c and an owner equivalent (reference normaliser, scheme compared) to o; c.OfActor(c.IRI(o)) ≡ o; ValidCollectionIRI(IRIf(o,c)); !ValidCollectionIRI(o) when o's cleaned last " +
		"segment is no collection name. items: an actor, an object and a value of each of the other 11 object types (collections holding two members) as the owner, by pointer and by value, also with a type name from another family (a Person held in an Object struct), x 8 names x {no explicit property, explicit IRI, explicit embedded collection}: explicit property wins, else ≡ IRIf(id,c). " +
		"non-trivial = owner has a trailing slash, port, escape or collection-named segment, or the item has an explicit property; distinct by (owner, name)")

	segs := []string{"users", "~jdoe", "a.b", "%20x", "%41", "a%2Fb", "inbox", "Followers", "replies", "x_y-z", "ü", "inboxes", "likes2", "outbox.json", "followers2", "Sharesheet"}
	hosts := []string{"example.com", "example.com:8443", "sub.example.org", "127.0.0.1:3000", "localhost", "inbox", "Followers", "liked:8080", "outbox.example.com", "[::1]", "[2001:db8::1]:8080"} // hosts that are themselves collection names: a host is no path segment
	var owners []string
	for _, sch := range []string{"https", "http"} {
		for _, h := range hosts {
			base := sch + "://" + h
			owners = append(owners, base, base+"/")
			for i, a := range segs {
				owners = append(owners, base+"/"+a, base+"/"+a+"/")
				b := segs[(i+3)%len(segs)]
				owners = append(owners, base+"/"+a+"/"+b, base+"/"+a+"/"+b+"//")
				if i%3 == 0 {
					owners = append(owners, base+"/"+a+"/"+b+"/"+segs[(i+5)%len(segs)])
				}
			}
		}
	}
	if r.WantLayer("owners", true) {
		done := 0
		for _, o := range owners {
			for _, c := range c15Names {
				cell := o + " " + string(c)
				if !r.WantCell(cell) {
					continue
				}
				done++
				ds := c15Owner(o, c)
				feats := c15Features(o)
				r.Case(cell, feats[0] != "plain", "owners "+strings.Join(feats, "+"))
				if done%397 == 0 {
					r.Sample(cell, map[string]interface{}{"layer": "owners", "owner": o, "collection": string(c), "built": string(ap.IRIf(ap.IRI(o), c))})
				}
				reportAll(r, "owners", cell, ds, cell)
			}
		}
		r.Cells(len(owners)*len(c15Names), done)
		r.Exhaustive("owners", !r.Replaying())
		r.Note("owners", len(owners))
	}
	if r.WantLayer("items", true) {
		done, total := 0, 0
		kinds := []string{"actor", "object"}
		for _, st := range vocab.StructTypes {
			if st.Name() != "Link" && st.Name() != "Object" && st.Name() != "Actor" {
				kinds = append(kinds, st.Name())
			}
		}
		kinds = append(kinds, "object#Person", "object#Service", "object#", "Place#Group", "Tombstone#Application")
		for _, k := range append([]string{}, kinds...) {
			kinds = append(kinds, k+"/val")
		}
		for _, kind := range kinds {
			for _, id := range []string{"https://example.com/users/jdoe", "https://example.com:8443/~a/", "http://sub.example.org/inbox/b", "https://example.com"} {
				for _, c := range c15Names {
					for _, ex := range []string{"", "iri", "collection", "collection-idless"} {
						total++
						cell := fmt.Sprintf("%s %s %s explicit=%s", kind, id, c, ex)
						if !r.WantCell(cell) {
							continue
						}
						done++
						ds, has := c15Item(kind, id, c, ex)
						r.Case(cell, has, "items "+kind, "items explicit="+fmt.Sprint(has))
						if done%41 == 0 {
							r.Sample(cell, map[string]interface{}{"layer": "items", "case": cell})
						}
						reportAll(r, "items", cell, ds, cell)
					}
				}
			}
		}
		r.Cells(total, done)
		r.Exhaustive("items", !r.Replaying())
	}

	segG := rapid.OneOf(rapid.SampledFrom(segs), rapid.StringMatching(`[a-zA-Z0-9_~.-]{1,8}`), rapid.SampledFrom([]string{"outbox", "LIKED", "shares", "likes", "following", "%7Euser", "a%20b", "..."}))
	r.Rapid(t, "random", r.Pick(3000, 20000), func(t *rapid.T) {
		o := rapid.SampledFrom([]string{"https", "http"}).Draw(t, "scheme") + "://" +
			rapid.OneOf(rapid.SampledFrom(hosts), rapid.StringMatching(`[a-z]{1,6}(\.[a-z]{2,5}){0,2}(:[1-9][0-9]{1,3})?`)).Draw(t, "host")
		n := rapid.IntRange(0, 4).Draw(t, "nseg")
		for i := 0; i < n; i++ {
			s := segG.Draw(t, "seg")
			if s == "." || s == ".." {
				s = "dot"
			}
			o += "/" + s
		}
		o += strings.Repeat("/", rapid.SampledFrom([]int{0, 0, 1, 1, 2}).Draw(t, "slashes"))
		c := rapid.SampledFrom(c15Names).Draw(t, "name")
		ds := c15Owner(o, c)
		kind := rapid.SampledFrom([]string{"actor", "object"}).Draw(t, "kind")
		ex := rapid.SampledFrom([]string{"", "iri", "collection", "collection-idless"}).Draw(t, "explicit")
		d2, has := c15Item(kind, o, c, ex)
		ds = append(ds, d2...)
		feats := c15Features(o)
		canon := o + " " + string(c) + " " + kind + " " + ex
		r.Case(canon, feats[0] != "plain" || has, "random "+strings.Join(feats, "+"), fmt.Sprintf("random explicit=%v", has))
		r.Sample(canon, map[string]interface{}{"layer": "random", "owner": o, "collection": string(c), "item": kind, "explicit": ex})
		failUnknown(r, t, "random", ds, map[string]interface{}{"owner": o, "collection": string(c), "item": kind, "explicit": ex})
	})
}
