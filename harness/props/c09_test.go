package props

import (
	"fmt"
	"reflect"
	"strings"
	"testing"
	"time"

	ap "github.com/go-ap/activitypub"
	"pgregory.net/rapid"
	"verif/harness/ev"
	"verif/harness/vocab"
)

// C09 — Item equality is reflexive, nil-correct and identity-sensitive.

func c09Equal(a, b ap.Item) (res bool, key, detail string) {
	pi, ok := ev.Timed(10*time.Second, func() { res = ap.ItemsEqual(a, b) })
	if !ok {
		return false, "eq hang", "ItemsEqual did not return within 10s"
	}
	if pi != nil {
		return false, "eq panic@" + pi.Frame, pi.Value
	}
	return res, "", ""
}

// c09Feature names the feature of x a reflexivity failure is attributed to (most specific first).
func c09Feature(x ap.Item) string {
	switch x.(type) {
	case ap.IRIs, *ap.IRIs:
		return "iris"
	}
	ft := vocab.FeaturesOf(x)
	hasIdlessMember := false
	vocab.Walk(x, 0, func(path string, depth int, node reflect.Value) {
		if strings.Contains(path, "[") && strings.HasSuffix(path, "]") && node.FieldByName("ID").Len() == 0 {
			hasIdlessMember = true
		}
	})
	switch {
	case ft.Flags["link"]:
		return "link"
	case hasIdlessMember:
		return "list-with-idless-member"
	case ft.Flags["nlN"]:
		return "nlN"
	case ft.Flags["valueform"]:
		return "valueform"
	case ft.Flags["idless"]:
		return "idless-embedded"
	}
	if _, ok := x.(ap.ItemCollection); ok {
		return "itemcollection"
	}
	return "plain " + vocab.GoTypeName(x)
}

var c09NilLikes = func() []struct {
	name string
	it   ap.Item
} {
	out := []struct {
		name string
		it   ap.Item
	}{{"nil", nil}, {"IRI(\"\")", ap.IRI("")}, {"NilIRI", ap.NilIRI}}
	for _, st := range vocab.StructTypes {
		out = append(out, struct {
			name string
			it   ap.Item
		}{"(*" + st.Name() + ")(nil)", reflect.Zero(reflect.PointerTo(st)).Interface().(ap.Item)})
	}
	return out
}()

// object-core fields whose change must make a copy unequal (the statement: any property of the object core other than media type and source)
var c09CoreSkip = map[string]bool{"ID": true, "Type": true, "MediaType": true, "Source": true}
var c09ActivityFields = []string{"Actor", "Object", "Target", "Result", "Origin", "Instrument"}

// c09Mutate changes exactly one set property of the copy y to a different, non-equivalent, identity-bearing value of the same
// shape; returns "" when the field's current value cannot serve as a witness (unset, id-less object, link without id, url list).
func c09Mutate(t *rapid.T, g *vocab.Gen, y reflect.Value, f vocab.Field) string {
	fv := y.Field(f.Index)
	if fv.IsZero() {
		return ""
	}
	changeItem := func(it ap.Item) (ap.Item, bool) {
		switch v := it.(type) {
		case ap.IRI:
			return g.ID("changed"), true
		case *ap.Link, ap.Link:
			return nil, false
		case ap.ItemCollection, ap.IRIs:
			return nil, false
		default:
			_ = v
			sv := reflect.ValueOf(it)
			if sv.Kind() != reflect.Ptr || sv.IsNil() {
				return nil, false
			}
			if sv.Elem().FieldByName("ID").Len() == 0 {
				return nil, false
			}
			sv.Elem().FieldByName("ID").SetString(string(g.ID("changed")))
			return it, true
		}
	}
	switch f.Kind {
	case vocab.KNLV:
		n := fv.Interface().(ap.NaturalLanguageValues)
		seen := map[ap.LangRef]bool{}
		for _, e := range n {
			if seen[e.Ref] {
				return "" // equality of language lists is only specified for lists without repeated tags (C19): no witness
			}
			seen[e.Ref] = true
		}
		i := rapid.IntRange(0, len(n)-1).Draw(t, "nlentry")
		if rapid.IntRange(0, 2).Draw(t, "case-only") == 0 {
			if flipped, ok := c09FlipCase(n[i].Value); ok {
				n[i].Value = flipped
				return "text-case"
			}
		}
		n[i].Value = append(append(ap.Content{}, n[i].Value...), " (changed)"...)
		return "text"
	case vocab.KItem:
		it := fv.Interface().(ap.Item)
		if l, ok := it.(ap.ItemCollection); ok {
			if f.Name == "URL" || len(l) == 0 {
				return ""
			}
			i := rapid.IntRange(0, len(l)-1).Draw(t, "member")
			n, ok := changeItem(l[i])
			if !ok {
				return ""
			}
			l[i] = n
			return "list-member"
		}
		n, ok := changeItem(it)
		if !ok {
			return ""
		}
		fv.Set(reflect.ValueOf(&n).Elem())
		return "item"
	case vocab.KItems:
		l := fv.Interface().(ap.ItemCollection)
		switch rapid.IntRange(0, 3).Draw(t, "listmut") {
		case 0:
			fv.Set(reflect.ValueOf(append(l, g.ID("added"))))
			return "list-member-added"
		case 1:
			if len(l) >= 2 {
				fv.Set(reflect.ValueOf(l[:len(l)-1]))
				return "list-member-dropped"
			}
		}
		i := rapid.IntRange(0, len(l)-1).Draw(t, "member")
		n, ok := changeItem(l[i])
		if !ok {
			return ""
		}
		l[i] = n
		return "list-member"
	case vocab.KTime:
		fv.Set(reflect.ValueOf(fv.Interface().(time.Time).Add(time.Hour)))
		return "instant"
	case vocab.KDur:
		fv.SetInt(fv.Int() + int64(time.Second)*3)
		if fv.Int() == 0 {
			fv.SetInt(int64(time.Second))
		}
		return "duration"
	}
	return ""
}

// c09FlipCase changes the letter case of the first ASCII letter of a text.
func c09FlipCase(c ap.Content) (ap.Content, bool) {
	out := append(ap.Content{}, c...)
	for i, b := range out {
		switch {
		case b >= 'a' && b <= 'z':
			out[i] = b - 32
			return out, true
		case b >= 'A' && b <= 'Z':
			out[i] = b + 32
			return out, true
		}
	}
	return out, false
}

type c09Variant struct {
	name string
	y    ap.Item
}

// c09Variants enumerates deep copies of x that differ from it in exactly one change of field f (see the sensitivity layer).
// Witnesses are identity-bearing: id-less links/objects are never the changed part, url lists are left alone, and language
// lists with a repeated tag have no specified equality (C19).
func c09Variants(x ap.Item, f vocab.Field) (out []c09Variant) {
	fresh := 0
	newID := func() ap.IRI { fresh++; return ap.IRI(fmt.Sprintf("https://changed.example.net/%d", fresh)) }
	with := func(name string, mut func(fv reflect.Value) bool) {
		y := vocab.CloneItem(x)
		if mut(reflect.ValueOf(y).Elem().Field(f.Index)) {
			out = append(out, c09Variant{name, y})
		}
	}
	// the changed id is a fresh one, or (near) an id on another host that carries the old one in its query, as the ids of
	// interaction and proxy endpoints do: another resource although both strings end alike
	near := false
	changed := func(old ap.IRI) ap.IRI {
		if near {
			return ap.IRI("https://changed.example.net/authorize_interaction?uri=" + string(old))
		}
		return newID()
	}
	changeMember := func(it ap.Item) (ap.Item, bool) {
		switch v := it.(type) {
		case ap.IRI:
			return changed(v), true
		case *ap.Link, ap.Link, ap.ItemCollection, ap.IRIs:
			return nil, false
		}
		sv := reflect.ValueOf(it)
		if sv.Kind() != reflect.Ptr || sv.IsNil() || sv.Elem().Kind() != reflect.Struct || sv.Elem().FieldByName("ID").Len() == 0 {
			return nil, false
		}
		sv.Elem().FieldByName("ID").SetString(string(changed(ap.IRI(sv.Elem().FieldByName("ID").String()))))
		return it, true
	}
	listVariants := func(get func(fv reflect.Value) ap.ItemCollection, set func(fv reflect.Value, l ap.ItemCollection)) {
		l0 := get(reflect.ValueOf(x).Elem().Field(f.Index))
		for i := range l0 {
			i := i
			for _, nr := range []bool{false, true} {
				nr := nr
				with(fmt.Sprintf("member-id #%d near=%v", i, nr), func(fv reflect.Value) bool {
					near = nr
					defer func() { near = false }()
					l := get(fv)
					n, ok := changeMember(l[i])
					if ok {
						l[i] = n
					}
					return ok
				})
			}
		}
		with("member-added last", func(fv reflect.Value) bool { set(fv, append(get(fv), newID())); return true })
		with("member-added first", func(fv reflect.Value) bool { set(fv, append(ap.ItemCollection{newID()}, get(fv)...)); return true })
		if len(l0) >= 2 {
			with("member-dropped last", func(fv reflect.Value) bool { l := get(fv); set(fv, l[:len(l)-1]); return true })
			with("member-dropped first", func(fv reflect.Value) bool { set(fv, get(fv)[1:]); return true })
		}
	}
	fv0 := reflect.ValueOf(x).Elem().Field(f.Index)
	if fv0.IsZero() || (fv0.Kind() == reflect.Slice && fv0.Len() == 0) {
		return nil // unset, or set to nothing: the clause is about changing what a property says
	}
	if n, ok := fv0.Interface().(ap.NaturalLanguageValues); ok {
		says := false
		for _, e := range n {
			says = says || len(e.Value) > 0
		}
		if !says {
			return nil
		}
	}
	switch f.Kind {
	case vocab.KNLV:
		n0 := fv0.Interface().(ap.NaturalLanguageValues)
		seen := map[ap.LangRef]bool{}
		for _, e := range n0 {
			if seen[e.Ref] {
				return nil
			}
			seen[e.Ref] = true
		}
		for i := range n0 {
			i := i
			with(fmt.Sprintf("text #%d", i), func(fv reflect.Value) bool {
				n := fv.Interface().(ap.NaturalLanguageValues)
				n[i].Value = append(append(ap.Content{}, n[i].Value...), " (changed)"...)
				return true
			})
			with(fmt.Sprintf("text-case #%d", i), func(fv reflect.Value) bool {
				// the same text in another letter case is another text
				n := fv.Interface().(ap.NaturalLanguageValues)
				flipped, ok := c09FlipCase(n[i].Value)
				if ok {
					n[i].Value = flipped
				}
				return ok
			})
			with(fmt.Sprintf("tag #%d", i), func(fv reflect.Value) bool {
				n := fv.Interface().(ap.NaturalLanguageValues)
				n[i].Ref = "zz-changed"
				return true
			})
		}
		with("entry-added", func(fv reflect.Value) bool {
			fv.Set(reflect.ValueOf(append(fv.Interface().(ap.NaturalLanguageValues), ap.LangRefValue{Ref: "zz-added", Value: ap.Content("added")})))
			return true
		})
		if len(n0) >= 2 {
			with("entry-dropped last", func(fv reflect.Value) bool {
				n := fv.Interface().(ap.NaturalLanguageValues)
				fv.Set(reflect.ValueOf(n[:len(n)-1]))
				return true
			})
			with("entry-dropped first", func(fv reflect.Value) bool {
				fv.Set(reflect.ValueOf(fv.Interface().(ap.NaturalLanguageValues)[1:]))
				return true
			})
		}
	case vocab.KItem:
		if f.Name == "URL" {
			return nil
		}
		if _, ok := fv0.Interface().(ap.ItemCollection); ok {
			listVariants(func(fv reflect.Value) ap.ItemCollection { return fv.Interface().(ap.ItemCollection) },
				func(fv reflect.Value, l ap.ItemCollection) { var it ap.Item = l; fv.Set(reflect.ValueOf(&it).Elem()) })
			return out
		}
		for _, nr := range []bool{false, true} {
			nr := nr
			with(fmt.Sprintf("item-id near=%v", nr), func(fv reflect.Value) bool {
				near = nr
				defer func() { near = false }()
				n, ok := changeMember(fv.Interface().(ap.Item))
				if ok {
					fv.Set(reflect.ValueOf(&n).Elem())
				}
				return ok
			})
		}
	case vocab.KItems:
		listVariants(func(fv reflect.Value) ap.ItemCollection { return fv.Interface().(ap.ItemCollection) },
			func(fv reflect.Value, l ap.ItemCollection) { fv.Set(reflect.ValueOf(l)) })
	case vocab.KTime:
		with("instant +1h", func(fv reflect.Value) bool {
			fv.Set(reflect.ValueOf(fv.Interface().(time.Time).Add(time.Hour)))
			return true
		})
		with("instant -1s", func(fv reflect.Value) bool {
			fv.Set(reflect.ValueOf(fv.Interface().(time.Time).Add(-time.Second)))
			return true
		})
		// another instant within the same second is another instant
		with("instant +1ns", func(fv reflect.Value) bool {
			fv.Set(reflect.ValueOf(fv.Interface().(time.Time).Add(time.Nanosecond)))
			return true
		})
		with("instant +250ms", func(fv reflect.Value) bool {
			fv.Set(reflect.ValueOf(fv.Interface().(time.Time).Add(250 * time.Millisecond)))
			return true
		})
	case vocab.KDur:
		with("duration +3s", func(fv reflect.Value) bool {
			fv.SetInt(fv.Int() + int64(3*time.Second))
			if fv.Int() == 0 {
				fv.SetInt(int64(time.Second))
			}
			return true
		})
	}
	return out
}

func TestC09(t *testing.T) {
	r := ev.Open(t, "C09")
	defer r.Close(t)
	r.Rule("values: every single-cell value and every everything-set value (reflexivity), then random vocabulary values incl. links, id-less embedded objects, multi-language text, lists, " +
		"value forms, ItemCollection and IRIs; laws: ItemsEqual(x,x); nil-likes (nil, IRI(\"\"), NilIRI, typed-nil pointers of the 14 types) equal to each other and unequal to x in both orders; " +
		"a deep copy with a changed id (host/path/query), a changed type, or exactly one object-core property (not mediaType/source) set in both to different identity-bearing values - " +
		"for transitive activities also actor/object/target/result/origin/instrument - is unequal in both orders; never panics, returns within 10 s. " +
		"non-trivial = x is not a bare IRI and has >= 2 properties; distinct by canonical dump + law")
	r.Assume("sensitivity witnesses are identity-bearing values of the same shape (IRI -> other IRI, object with id -> other id, list member's id); url lists and id-less links/objects are not used as witnesses")

	// nil laws among nil-likes: exhaustive
	if r.WantLayer("nil-pairs", true) {
		n := 0
		for _, a := range c09NilLikes {
			for _, b := range c09NilLikes {
				cell := a.name + " vs " + b.name
				if !r.WantCell(cell) {
					continue
				}
				n++
				res, key, detail := c09Equal(a.it, b.it)
				r.Case(cell, true, "nil-pairs")
				if key != "" {
					r.Report("nil-pairs", cell, key, detail, cell)
				} else if !res {
					r.Report("nil-pairs", cell, "eq nil-nil "+a.name+" "+b.name, "two nil-like items are not equal: "+cell, cell)
				}
			}
		}
		r.Cells(len(c09NilLikes)*len(c09NilLikes), n)
		r.Exhaustive("nil-pairs", !r.Replaying())
	}

	// reflexivity + nil laws on the single-cell values: exhaustive at depth 1
	if r.WantLayer("cells", true) {
		cells, _ := vocab.SingleCells(true)
		done := 0
		check := func(id string, x ap.Item) {
			if !r.WantCell(id) {
				return
			}
			done++
			r.Case(id+vocab.Dump(x), true, "cells")
			res, key, detail := c09Equal(x, x)
			if key != "" {
				r.Report("cells", id, key, detail, vocab.Dump(x))
			} else if !res {
				r.Report("cells", id, "eq refl "+c09Feature(x), "ItemsEqual(x, x) is false for x = "+vocab.Dump(x), vocab.Dump(x))
			}
			for _, nl := range c09NilLikes {
				for _, ord := range []string{"nil,x", "x,nil"} {
					a, b := nl.it, x
					if ord == "x,nil" {
						a, b = x, nl.it
					}
					res, key, detail := c09Equal(a, b)
					if key != "" {
						r.Report("cells", id, key+" "+ord, detail, vocab.Dump(x))
					} else if res {
						r.Report("cells", id, "eq nil-x "+nl.name+" "+ord, "a nil-like item equals "+vocab.Dump(x), vocab.Dump(x))
					}
				}
			}
		}
		for _, c := range cells {
			check(c.ID, c.Value)
		}
		for _, st := range vocab.StructTypes {
			check("everything "+st.Name(), vocab.Everything(st, true))
		}
		r.Cells(len(cells)+len(vocab.StructTypes), done)
		r.Exhaustive("cells", !r.Replaying())
	}

	// sensitivity, deterministic: every single-cell value whose field is an object-core property (or an activity property of a transitive
	// activity) x every single change of that property: another text / tag / one entry more or fewer, another IRI, another id of an
	// embedded object, another id of one list member, one member more or fewer, another instant, another duration
	if r.WantLayer("sensitivity", true) {
		cells, _ := vocab.SingleCells(true)
		done, total := 0, 0
		for _, c := range cells {
			if c.Type.Name() == "Link" {
				continue
			}
			_, core := vocab.FieldByName(vocab.StructType("Object"), c.Field.Name)
			inScope := core && !c09CoreSkip[c.Field.Name]
			if c.Type.Name() == "Activity" {
				for _, an := range c09ActivityFields {
					inScope = inScope || an == c.Field.Name
				}
			}
			if !inScope {
				continue
			}
			// each value once as it is and, for the activity types, once more with the type name in another letter case (types are compared
			// ignoring case, so "like" is a Like: what holds for the one holds for the other)
			type sv struct {
				x    ap.Item
				v    c09Variant
				tcas string
			}
			var all []sv
			for _, v := range c09Variants(c.Value, c.Field) {
				all = append(all, sv{c.Value, v, ""})
			}
			if c.Type.Name() == "Activity" || c.Type.Name() == "IntransitiveActivity" || c.Type.Name() == "Question" || c.Type.Name() == "Actor" {
				for _, flip := range []func(string) string{strings.ToLower, strings.ToUpper} {
					x2 := vocab.CloneItem(c.Value)
					tf := reflect.ValueOf(x2).Elem().FieldByName("Type")
					tf.SetString(flip(tf.String()))
					for _, v := range c09Variants(x2, c.Field) {
						all = append(all, sv{x2, v, " type=" + tf.String()})
					}
				}
			}
			for _, e := range all {
				v := e.v
				c := c
				c.Value = e.x
				total++
				cell := c.ID + e.tcas + " / " + v.name
				if !r.WantCell(cell) {
					continue
				}
				done++
				r.Case(cell+vocab.Dump(c.Value), true, "sensitivity change="+strings.Fields(v.name)[0], "sensitivity kind="+string(c.Field.Kind))
				if done%211 == 0 {
					r.Sample(cell, map[string]interface{}{"layer": "sensitivity", "cell": c.ID, "change": v.name, "x": vocab.Dump(c.Value), "y": vocab.Dump(v.y)})
				}
				for _, ord := range []string{"x,y", "y,x"} {
					a, b := c.Value, v.y
					if ord == "y,x" {
						a, b = v.y, c.Value
					}
					if res, key, detail := c09Equal(a, b); key != "" {
						r.Report("sensitivity", cell, key+" "+ord, detail, cell)
					} else if res {
						r.Report("sensitivity", cell, "eq sens prop "+c.Type.Name()+"."+c.Field.Name, fmt.Sprintf("a copy with a changed %s (%s) is still equal (%s): x = %s, copy = %s",
							c.Field.Name, v.name, ord, clipStr(vocab.Dump(c.Value), 400), clipStr(vocab.Dump(v.y), 400)), cell)
					}
				}
			}
		}
		r.Cells(total, done)
		r.Exhaustive("sensitivity", !r.Replaying())
	}

	// "comparison never panics and always terminates" on pairs where a property is set on one side only: every single-cell value
	// against the same id and type without that property, and against the everything-set value of its type with the same id
	if r.WantLayer("one-sided", true) {
		cells, _ := vocab.SingleCells(true)
		n := 0
		for _, c := range cells {
			if !r.WantCell(c.ID) {
				continue
			}
			n++
			sv, _ := vocab.StructOf(c.Value)
			bare := reflect.New(c.Type)
			bare.Elem().FieldByName("ID").Set(sv.FieldByName("ID"))
			bare.Elem().FieldByName("Type").Set(sv.FieldByName("Type"))
			full := vocab.Everything(c.Type, true)
			fv, _ := vocab.StructOf(full)
			fv.FieldByName("ID").Set(sv.FieldByName("ID"))
			fv.FieldByName("Type").Set(sv.FieldByName("Type"))
			r.Case("one-sided "+c.ID, true, "one-sided kind="+string(c.Field.Kind))
			for _, pr := range [][2]ap.Item{{c.Value, bare.Interface().(ap.Item)}, {bare.Interface().(ap.Item), c.Value}, {c.Value, full}, {full, c.Value}} {
				if _, key, detail := c09Equal(pr[0], pr[1]); key != "" {
					r.Report("one-sided", c.ID, key, detail+" (comparing "+clipStr(vocab.Dump(pr[0]), 200)+" with "+clipStr(vocab.Dump(pr[1]), 200)+")", c.ID)
				}
			}
		}
		r.Cells(len(cells), n)
		r.Exhaustive("one-sided", !r.Replaying())
	}

	// reflexivity of lists that hold nil-like members (nil, nil pointer, empty IRI, the "-" IRI) next to real ones, alone and
	// as the value of list-typed and item-typed properties
	if r.WantLayer("nil-members", true) {
		nils := []struct {
			name string
			mk   func() ap.Item
		}{{"nil", func() ap.Item { return nil }}, {"nil-pointer", func() ap.Item { return (*ap.Object)(nil) }}, {"nil-actor-pointer", func() ap.Item { return (*ap.Actor)(nil) }},
			{"empty-iri", func() ap.Item { return ap.IRI("") }}, {"dash-iri", func() ap.Item { return ap.NilIRI }}}
		reals := []func() ap.Item{func() ap.Item { return ap.IRI("https://example.com/a") }, func() ap.Item { return &ap.Object{ID: "https://example.com/o", Type: ap.NoteType} },
			func() ap.Item { return &ap.Object{Name: ap.DefaultNaturalLanguageValue("anonymous")} }}
		n := 0
		for _, nl := range nils {
			for pos := 0; pos < 3; pos++ {
				for ri := range reals {
					mkList := func() ap.ItemCollection {
						l := ap.ItemCollection{reals[ri](), reals[(ri+1)%len(reals)]()}
						out := append(ap.ItemCollection{}, l[:pos%3%(len(l)+1)]...)
						out = append(out, nl.mk())
						return append(out, l[pos%3%(len(l)+1):]...)
					}
					holders := map[string]ap.Item{
						"bare-list":          mkList(),
						"Object.Tag":         &ap.Object{ID: "https://example.com/x", Type: ap.NoteType, Tag: mkList()},
						"Activity.To":        &ap.Activity{ID: "https://example.com/x", Type: ap.CreateType, To: mkList()},
						"Object.Attachment":  &ap.Object{ID: "https://example.com/x", Type: ap.NoteType, Attachment: mkList()},
						"OrderedItems":       &ap.OrderedCollection{ID: "https://example.com/x", Type: ap.OrderedCollectionType, OrderedItems: mkList()},
						"only-the-nil-bare":  ap.ItemCollection{nl.mk()},
						"only-the-nil-in-cc": &ap.Object{ID: "https://example.com/x", Type: ap.NoteType, CC: ap.ItemCollection{nl.mk()}},
					}
					for _, hn := range []string{"bare-list", "Object.Tag", "Activity.To", "Object.Attachment", "OrderedItems", "only-the-nil-bare", "only-the-nil-in-cc"} {
						x := holders[hn]
						cell := fmt.Sprintf("%s with %s at %d (real %d)", hn, nl.name, pos, ri)
						if !r.WantCell(cell) {
							continue
						}
						n++
						r.Case(cell, true, "nil-members "+hn)
						if res, key, detail := c09Equal(x, x); key != "" {
							r.Report("nil-members", cell, key, detail, cell)
						} else if !res {
							r.Report("nil-members", cell, "eq refl list-with-nil-member "+hn, "ItemsEqual(x, x) is false for "+cell, cell)
						}
					}
				}
			}
		}
		r.Cells(n, n)
		r.Exhaustive("nil-members", !r.Replaying())
	}

	// objects whose ids differ, or whose types differ, are never equal: every ordered pair of Go types, minimal and populated values
	if r.WantLayer("cross-type", true) {
		n := 0
		mk := func(st reflect.Type, id string, typ ap.ActivityVocabularyType, full bool) ap.Item {
			var x ap.Item
			if full {
				x = vocab.Everything(st, true)
			} else {
				x = reflect.New(st).Interface().(ap.Item)
			}
			sv, _ := vocab.StructOf(x)
			sv.FieldByName("ID").SetString(id)
			sv.FieldByName("Type").SetString(string(typ))
			return x
		}
		for _, a := range vocab.StructTypes {
			for _, b := range vocab.StructTypes {
				for _, full := range []bool{false, true} {
					for _, variant := range []string{"ids-differ", "types-differ", "ids-differ-host", "ids-differ-port", "ids-differ-query", "ids-differ-query-value", "ids-differ-repeated-key", "ids-differ-repeated-key-multiset", "ids-differ-opaque", "ids-differ-wrapped", "types-differ-one-untyped"} {
						if a.Name() == "Link" || b.Name() == "Link" {
							continue // the clause speaks of objects
						}
						ta, tb := vocab.DefaultType[a.Name()], vocab.DefaultType[b.Name()]
						ida, idb := "https://example.com/things/1", "https://example.com/things/2"
						switch variant {
						case "ids-differ-host":
							ida, idb = "https://example.com/things/1", "https://example.org/things/1"
						case "ids-differ-port":
							ida, idb = "https://example.com/things/1", "https://example.com:8443/things/1"
						case "ids-differ-query":
							ida, idb = "https://example.com/things/1", "https://example.com/things/1?page=1"
						case "ids-differ-query-value":
							ida, idb = "https://example.com/things/1?page=1", "https://example.com/things/1?page=2"
						case "ids-differ-repeated-key":
							ida, idb = "https://example.com/things/1?tag=a", "https://example.com/things/1?tag=a&tag=b"
						case "ids-differ-opaque":
							// ids that are URIs without an authority: different strings are different objects
							ida, idb = "urn:uuid:6e8bc430-9c3a-11d9-9669-0800200c9a66", "urn:uuid:6e8bc430-9c3a-11d9-9669-0800200c9a67"
						case "ids-differ-wrapped":
							ida, idb = "https://example.com/things/1", "https://social.example.net/authorize_interaction?uri=https://example.com/things/1"
						case "ids-differ-repeated-key-multiset":
							ida, idb = "https://example.com/things/1?x=1&x=1", "https://example.com/things/1?x=1&x=2"
						}
						if variant == "types-differ-one-untyped" {
							// the same id, one side typed, the other without a type: the types differ
							idb, tb = ida, ""
						}
						if variant == "types-differ" {
							idb = ida
							if ta == tb {
								found := false
								for _, n := range vocab.NamesFor(b.Name()) {
									if n != ta {
										tb, found = n, true
										break
									}
								}
								if !found {
									continue
								}
							}
						}
						cell := fmt.Sprintf("%s vs %s full=%v %s", a.Name(), b.Name(), full, variant)
						if !r.WantCell(cell) {
							continue
						}
						n++
						x, y := mk(a, ida, ta, full), mk(b, idb, tb, full)
						r.Case(cell, true, "cross-type "+variant)
						for _, ord := range []string{"x,y", "y,x"} {
							p, q := x, y
							if ord == "y,x" {
								p, q = y, x
							}
							if res, key, detail := c09Equal(p, q); key != "" {
								r.Report("cross-type", cell, key, detail, cell)
							} else if res {
								r.Report("cross-type", cell, fmt.Sprintf("eq distinct %s %s-vs-%s", variant, a.Name(), b.Name()), fmt.Sprintf("two objects whose %s are equal (%s): %s and %s", variant, ord, clipStr(vocab.Dump(p), 150), clipStr(vocab.Dump(q), 150)), cell)
							}
						}
					}
				}
			}
		}
		// lists against single items that are none of their members
		lists := map[string]ap.Item{
			"ItemCollection[iri]":        ap.ItemCollection{ap.IRI("https://example.com/l/1")},
			"ItemCollection[iri,object]": ap.ItemCollection{ap.IRI("https://example.com/l/1"), &ap.Object{ID: "https://example.com/l/2", Type: ap.NoteType}},
			"ItemCollection[object]":     ap.ItemCollection{&ap.Object{ID: "https://example.com/l/2", Type: ap.NoteType}},
			"IRIs[1]":                    ap.IRIs{"https://example.com/l/1"},
			"IRIs[2]":                    ap.IRIs{"https://example.com/l/1", "https://example.com/l/2"},
		}
		for _, ln := range []string{"ItemCollection[iri]", "ItemCollection[iri,object]", "ItemCollection[object]", "IRIs[1]", "IRIs[2]"} {
			singles := []ap.Item{ap.IRI("https://example.com/single")}
			for _, st := range vocab.StructTypes {
				singles = append(singles, mk(st, "https://example.com/single", vocab.DefaultType[st.Name()], false))
			}
			for _, z := range singles {
				for _, ord := range []string{"list,single", "single,list"} {
					cell := fmt.Sprintf("%s vs %s (%s)", ln, vocab.GoTypeName(z), ord)
					if !r.WantCell(cell) {
						continue
					}
					n++
					a, b := lists[ln], z
					if ord == "single,list" {
						a, b = z, lists[ln]
					}
					r.Case(cell, true, "cross-type list-vs-single")
					if res, key, detail := c09Equal(a, b); key != "" {
						r.Report("cross-type", cell, key, detail, cell)
					} else if res {
						r.Report("cross-type", cell, "eq distinct list-vs-single "+vocab.GoTypeName(z), "a list equals a single item that is none of its members: "+cell, cell)
					}
				}
			}
		}
		r.Cells(n, n)
		r.Exhaustive("cross-type", !r.Replaying())
	}

	r.Rapid(t, "random", r.Pick(5000, 40000), func(t *rapid.T) {
		depth := rapid.IntRange(0, r.Pick(3, 4)).Draw(t, "depth")
		g := vocab.NewGen(t, vocab.Opts{MaxDepth: depth, Gob: true, ValueForms: true})
		var x ap.Item
		shape := rapid.IntRange(0, 19).Draw(t, "top")
		switch {
		case shape == 0:
			x = g.Items(depth)
		case shape == 1:
			n := rapid.IntRange(1, 4).Draw(t, "niris")
			l := ap.IRIs{}
			for i := 0; i < n; i++ {
				l = append(l, g.ID("iri"))
			}
			x = l
		case shape == 2:
			x = g.ID("iri")
		default:
			x = g.Value(rapid.SampledFrom(goTypeNames).Draw(t, "gotype"), depth, false)
			if shape == 3 {
				x = reflect.ValueOf(x).Elem().Interface().(ap.Item) // value form at top level
			}
		}
		dump := vocab.Dump(x)
		ft := vocab.FeaturesOf(x)
		var ds []keyed
		add := func(k, d string) { ds = append(ds, keyed{k, d + " (x = " + clipStr(dump, 900) + ")"}) }

		// law 1: reflexive
		if res, key, detail := c09Equal(x, x); key != "" {
			add(key, detail)
		} else if !res {
			add("eq refl "+c09Feature(x), "ItemsEqual(x, x) is false")
		}
		// law 2: nil-likes
		nl := c09NilLikes[rapid.IntRange(0, len(c09NilLikes)-1).Draw(t, "nillike")]
		for _, ord := range []string{"nil,x", "x,nil"} {
			a, b := nl.it, x
			if ord == "x,nil" {
				a, b = x, nl.it
			}
			if res, key, detail := c09Equal(a, b); key != "" {
				add(key+" "+ord, detail)
			} else if res {
				add("eq nil-x "+nl.name+" "+ord, "a nil-like item equals a non-nil one")
			}
		}
		law := "refl+nil"
		// laws 3/4: sensitivity, on struct values with an id
		if sv, ok := vocab.StructOf(x); ok && reflect.ValueOf(x).Kind() == reflect.Ptr && sv.FieldByName("ID").Len() > 0 && sv.Type().Name() != "Link" {
			y := vocab.CloneItem(x)
			yv := reflect.ValueOf(y).Elem()
			what := ""
			switch rapid.IntRange(0, 5).Draw(t, "mutation") {
			case 0:
				id := sv.FieldByName("ID").String()
				switch rapid.IntRange(0, 2).Draw(t, "idpart") {
				case 0:
					id = strings.Replace(id, "://", "://other.", 1)
					what = "id-host"
				case 1:
					if i := strings.Index(id, "?"); i >= 0 {
						id = id[:i] + "/x" + id[i:]
					} else {
						id += "/x"
					}
					what = "id-path"
				default:
					if strings.Contains(id, "?") {
						id += "&z=9"
					} else {
						id += "?z=9"
					}
					what = "id-query"
				}
				yv.FieldByName("ID").SetString(id)
			case 1:
				names := vocab.NamesFor(sv.Type().Name())
				cur := sv.FieldByName("Type").String()
				if cur != "" && rapid.IntRange(0, 3).Draw(t, "type-removed") == 0 {
					yv.FieldByName("Type").SetString("")
					what = "type"
					break
				}
				for _, n := range names {
					if !strings.EqualFold(string(n), cur) {
						yv.FieldByName("Type").SetString(string(n))
						what = "type"
						break
					}
				}
				if what == "" {
					yv.FieldByName("Type").SetString("Note")
					if !strings.EqualFold(cur, "Note") {
						what = "type"
					}
				}
			default:
				// one property of the object core, or one of the activity properties
				var cands []vocab.Field
				isActivity := sv.Type().Name() == "Activity" && ap.ActivityTypes.Contains(ap.ActivityVocabularyType(sv.FieldByName("Type").String()))
				for _, f := range vocab.Fields(sv.Type()) {
					if sv.Field(f.Index).IsZero() {
						continue
					}
					_, core := vocab.FieldByName(vocab.StructType("Object"), f.Name)
					if core && !c09CoreSkip[f.Name] {
						cands = append(cands, f)
					}
					if isActivity {
						for _, an := range c09ActivityFields {
							if an == f.Name {
								cands = append(cands, f)
							}
						}
					}
				}
				if len(cands) > 0 {
					f := cands[rapid.IntRange(0, len(cands)-1).Draw(t, "field")]
					if how := c09Mutate(t, g, yv, f); how != "" {
						what = "prop " + sv.Type().Name() + "." + f.Name
						_ = how
					}
				}
			}
			if what != "" {
				law = "sens " + strings.Fields(what)[0]
				for _, ord := range []string{"x,y", "y,x"} {
					a, b := x, y
					if ord == "y,x" {
						a, b = y, x
					}
					if res, key, detail := c09Equal(a, b); key != "" {
						add(key+" "+ord, detail)
					} else if res {
						add("eq sens "+what, fmt.Sprintf("a copy with a changed %s is still equal (%s); copy = %s", what, ord, clipStr(vocab.Dump(y), 600)))
					}
				}
			}
		}
		// law 5: an independently generated object (all ids are fresh) is never equal to x
		if sv, ok := vocab.StructOf(x); ok && sv.FieldByName("ID").Len() > 0 && sv.Type().Name() != "Link" && rapid.IntRange(0, 2).Draw(t, "distinct-pair") == 0 {
			z := g.Value(rapid.SampledFrom(goTypeNames[:13]).Draw(t, "othertype"), 1, false)
			for _, ord := range []string{"x,z", "z,x"} {
				a, b := x, z
				if ord == "z,x" {
					a, b = z, x
				}
				if res, key, detail := c09Equal(a, b); key != "" {
					add(key+" "+ord, detail)
				} else if res {
					add(fmt.Sprintf("eq distinct ids-differ %s-vs-%s", vocab.GoTypeName(x), vocab.GoTypeName(z)), fmt.Sprintf("two objects with different ids are equal (%s); other = %s", ord, clipStr(vocab.Dump(z), 400)))
				}
			}
			law += "+distinct"
		}
		// law 6: a non-empty list is never equal to a single object or IRI whose id is none of its members'
		if isList := ap.IsItemCollection(x) || ap.IsIRIs(x); isList && rapid.IntRange(0, 1).Draw(t, "list-vs-single") == 0 {
			n := 0
			_ = ap.OnItemCollection(x, func(c *ap.ItemCollection) error { n = len(*c); return nil })
			if n > 0 {
				var z ap.Item = g.ID("single")
				if rapid.Bool().Draw(t, "single-object") {
					z = g.Value(rapid.SampledFrom(goTypeNames[:13]).Draw(t, "singletype"), 0, false)
				}
				for _, ord := range []string{"x,z", "z,x"} {
					a, b := x, z
					if ord == "z,x" {
						a, b = z, x
					}
					if res, key, detail := c09Equal(a, b); key != "" {
						add(key+" "+ord, detail)
					} else if res {
						add("eq distinct list-vs-single "+vocab.GoTypeName(z), fmt.Sprintf("a list equals a single item that is none of its members (%s); single = %s", ord, clipStr(vocab.Dump(z), 300)))
					}
				}
				law += "+list-vs-single"
			}
		}
		labels := append(ft.Labels("random"), "random law="+law, "random feature="+c09Feature(x))
		_, isIRI := x.(ap.IRI)
		r.Case(law+" "+dump, !isIRI && (ft.SetProps >= 2 || ft.Nodes == 0), labels...)
		r.Sample(dump, map[string]interface{}{"layer": "random", "law": law, "x": dump})
		failUnknown(r, t, "random", ds, map[string]interface{}{"x": dump, "law": law})
	})
}

func clipStr(s string, n int) string {
	if len(s) > n {
		return s[:n] + "…"
	}
	return s
}
