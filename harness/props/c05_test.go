package props

import (
	"bytes"
	"encoding/json"
	"fmt"
	"os"
	"path/filepath"
	"reflect"
	"sort"
	"strconv"
	"strings"
	"testing"
	"time"

	ap "github.com/go-ap/activitypub"
	"pgregory.net/rapid"
	"verif/harness/ev"
	"verif/harness/oracle"
	"verif/harness/vocab"
)

// C05 — Decoding reads what the document says, and re-encoding is a fixpoint.

// ---- independent document writer -------------------------------------------------------------------------------------
// The model of a document is a vocabulary value (the value the document is expected to decode to); the writer renders it
// with encoding/json for scalars and the jsonld struct tags for terms - it shares no code with the library's encoder - and
// makes semantically neutral choices (member order, v vs [v], plain string vs one-entry language map, zone offsets).

type docChooser interface {
	Bool(label string) bool
	Perm(n int) []int
}

type fixedChoices struct{ alt bool }

func (f fixedChoices) Bool(string) bool { return f.alt }
func (f fixedChoices) Perm(n int) []int {
	p := make([]int, n)
	for i := range p {
		p[i] = i
		if f.alt {
			p[i] = n - 1 - i
		}
	}
	return p
}

type rapidChoices struct{ t *rapid.T }

func (c rapidChoices) Bool(l string) bool { return rapid.Bool().Draw(c.t, l) }
func (c rapidChoices) Perm(n int) []int {
	p := make([]int, n)
	for i := range p {
		p[i] = i
	}
	if n > 1 && rapid.Bool().Draw(c.t, "shuffle") {
		return rapid.Permutation(p).Draw(c.t, "order")
	}
	return p
}

type docMember struct {
	name string
	raw  []byte
}

// c05Escapes: how the independent writer spells strings - JSON allows any character to be written as an escape.  0: as they are;
// 1: &, < and > as \u0026 ... (encoding/json's default) and / as \/ (PHP's default).  Set per document by writeDoc.
var c05Escapes = 0

func jsonScalar(v interface{}) []byte {
	var buf bytes.Buffer
	enc := json.NewEncoder(&buf)
	enc.SetEscapeHTML(c05Escapes == 1)
	_ = enc.Encode(v)
	out := bytes.TrimRight(buf.Bytes(), "\n")
	if _, isString := v.(string); isString && c05Escapes == 1 {
		out = bytes.ReplaceAll(out, []byte("/"), []byte(`\/`))
	}
	return out
}

func writeXSDDuration(d time.Duration) string {
	neg := d < 0
	if neg {
		d = -d
	}
	secs := int64(d / time.Second)
	days, rem := secs/86400, secs%86400
	h, m, s := rem/3600, (rem%3600)/60, rem%60
	var sb strings.Builder
	if neg {
		sb.WriteString("-")
	}
	sb.WriteString("P")
	if days > 0 {
		fmt.Fprintf(&sb, "%dD", days)
	}
	if h+m+s > 0 || days == 0 {
		sb.WriteString("T")
		if h > 0 {
			fmt.Fprintf(&sb, "%dH", h)
		}
		if m > 0 {
			fmt.Fprintf(&sb, "%dM", m)
		}
		if s > 0 || (h == 0 && m == 0) {
			fmt.Fprintf(&sb, "%dS", s)
		}
	}
	return sb.String()
}

func docObject(ms []docMember, ch docChooser) []byte {
	var sb bytes.Buffer
	sb.WriteString("{")
	for i, k := range ch.Perm(len(ms)) {
		if i > 0 {
			sb.WriteString(",")
		}
		sb.Write(jsonScalar(ms[k].name))
		sb.WriteString(":")
		sb.Write(ms[k].raw)
	}
	sb.WriteString("}")
	return sb.Bytes()
}

func docItem(it ap.Item, ch docChooser) []byte {
	it = vocab.NormItem(it)
	switch v := it.(type) {
	case nil:
		return []byte("null")
	case ap.IRI:
		return jsonScalar(string(v))
	case ap.ItemCollection:
		var sb bytes.Buffer
		sb.WriteString("[")
		for i, m := range v {
			if i > 0 {
				sb.WriteString(",")
			}
			sb.Write(docItem(m, ch))
		}
		sb.WriteString("]")
		return sb.Bytes()
	}
	sv, _ := vocab.StructOf(it)
	return docStruct(sv, ch, false)
}

func docNLV(term string, nl ap.NaturalLanguageValues, ch docChooser) []docMember {
	var entries []ap.LangRefValue
	for _, e := range nl {
		if len(e.Value) > 0 {
			entries = append(entries, e)
		}
	}
	switch {
	case len(entries) == 0:
		return nil
	case len(entries) == 1:
		e := entries[0]
		if e.Ref != ap.NilLangRef && e.Ref != "" && ch.Bool("single-as-map") {
			return []docMember{{term + "Map", docObject([]docMember{{string(e.Ref), jsonScalar(string(e.Value))}}, ch)}}
		}
		return []docMember{{term, jsonScalar(string(e.Value))}}
	}
	var ms []docMember
	for _, e := range entries {
		ms = append(ms, docMember{string(e.Ref), jsonScalar(string(e.Value))})
	}
	return []docMember{{term + "Map", docObject(ms, ch)}}
}

func docStruct(sv reflect.Value, ch docChooser, top bool) []byte {
	var ms []docMember
	if top && ch.Bool("context") {
		ms = append(ms, docMember{"@context", jsonScalar("https://www.w3.org/ns/activitystreams")})
	}
	for _, f := range vocab.Fields(sv.Type()) {
		fv := sv.Field(f.Index)
		if f.Term == "" {
			continue
		}
		switch f.Kind {
		case vocab.KID, vocab.KType, vocab.KMime, vocab.KLangRef, vocab.KIRI, vocab.KString:
			if fv.Len() > 0 {
				ms = append(ms, docMember{f.Term, jsonScalar(fv.String())})
			}
		case vocab.KNLV:
			ms = append(ms, docNLV(f.Term, fv.Interface().(ap.NaturalLanguageValues), ch)...)
		case vocab.KItem:
			if fv.IsNil() || vocab.IsEmptyItem(fv.Interface().(ap.Item)) {
				continue
			}
			it := vocab.NormItem(fv.Interface().(ap.Item))
			raw := docItem(it, ch)
			if _, isList := it.(ap.ItemCollection); !isList && ch.Bool("wrap-single") {
				raw = append(append([]byte("["), raw...), ']')
			}
			ms = append(ms, docMember{f.Term, raw})
		case vocab.KItems:
			l := fv.Interface().(ap.ItemCollection)
			if len(l) == 0 {
				continue
			}
			if len(l) == 1 && ch.Bool("unwrap-list1") {
				ms = append(ms, docMember{f.Term, docItem(l[0], ch)})
			} else {
				var sb bytes.Buffer
				sb.WriteString("[")
				for i, m := range l {
					if i > 0 {
						sb.WriteString(",")
					}
					sb.Write(docItem(m, ch))
				}
				sb.WriteString("]")
				ms = append(ms, docMember{f.Term, sb.Bytes()})
			}
		case vocab.KTime:
			t := fv.Interface().(time.Time)
			if !t.IsZero() {
				if _, off := t.Zone(); off%60 != 0 {
					t = t.UTC() // RFC 3339 offsets have no seconds: an independent writer names such an instant in UTC
				}
				ms = append(ms, docMember{f.Term, jsonScalar(t.Format(time.RFC3339))})
			}
		case vocab.KDur:
			if fv.Int() != 0 {
				ms = append(ms, docMember{f.Term, jsonScalar(writeXSDDuration(time.Duration(fv.Int())))})
			}
		case vocab.KUint:
			if fv.Uint() != 0 {
				ms = append(ms, docMember{f.Term, []byte(strconv.FormatUint(fv.Uint(), 10))})
			}
		case vocab.KInt:
			if fv.Int() != 0 {
				ms = append(ms, docMember{f.Term, []byte(strconv.FormatInt(fv.Int(), 10))})
			}
		case vocab.KFloat:
			if fv.Float() != 0 {
				ms = append(ms, docMember{f.Term, []byte(strconv.FormatFloat(fv.Float(), 'f', -1, 64))})
			}
		case vocab.KBool:
			if fv.Bool() {
				ms = append(ms, docMember{f.Term, []byte("true")})
			}
		case vocab.KSource, vocab.KPublicKey:
			if !fv.IsZero() {
				if raw := docStruct(fv, ch, false); len(raw) > 2 {
					ms = append(ms, docMember{f.Term, raw})
				}
			}
		case vocab.KEndpoints:
			if !fv.IsNil() && !fv.Elem().IsZero() {
				ms = append(ms, docMember{f.Term, docStruct(fv.Elem(), ch, false)})
			}
		}
	}
	return docObject(ms, ch)
}

// WriteDoc renders the document for a value.
func writeDoc(x ap.Item, ch docChooser) []byte {
	sv, _ := vocab.StructOf(x)
	c05Escapes = 0
	if ch.Bool("escaped-spelling") {
		c05Escapes = 1
	}
	defer func() { c05Escapes = 0 }()
	return docStruct(sv, ch, true)
}

// ---- checks ----------------------------------------------------------------------------------------------------------

// c05Read decodes doc and compares with the expected value; then runs the fixpoint.
func c05Check(doc []byte, want ap.Item, rootCell string, typed bool) (ds []keyed) {
	var v1 ap.Item
	var err error
	pi := evSafe(func() {
		if typed {
			v1, err = codecJSONTyped.decode(want, doc)
		} else {
			v1, err = ap.UnmarshalJSON(doc)
			clobberJSON(len(doc))
		}
	})
	if pi != nil {
		return []keyed{{fmt.Sprintf("json-read %s panic@%s", rootCell, pi.Frame), pi.Value + " doc " + clipBytes(doc, 300)}}
	}
	if err != nil {
		return []keyed{{fmt.Sprintf("json-read %s decode-error", rootCell), fmt.Sprintf("%v for %s", err, clipBytes(doc, 300))}}
	}
	if want != nil {
		for _, d := range vocab.DiffTop(want, v1, vocab.JSONForm) {
			k := d.Key("json-read")
			if d.Cell == "root" {
				k = fmt.Sprintf("json-read %s root:%s", rootCell, d.Shape)
			}
			ds = append(ds, keyed{k, d.String() + " (document: " + clipBytes(doc, 400) + ")"})
		}
	}
	return append(ds, c05Fixpoint(v1, rootCell)...)
}

func c05Fixpoint(v1 ap.Item, rootCell string) (ds []keyed) {
	if vocab.IsEmptyItem(v1) {
		return nil
	}
	var b1, b2 []byte
	var v2 ap.Item
	var err error
	stage := "encode1"
	pi := evSafe(func() {
		if b1, err = ap.MarshalJSON(v1); err != nil {
			return
		}
		stage = "decode2"
		if v2, err = ap.UnmarshalJSON(b1); err != nil {
			return
		}
		stage = "encode2"
		b2, err = ap.MarshalJSON(v2)
	})
	if pi != nil {
		return []keyed{{fmt.Sprintf("json-fix %s panic@%s", rootCell, pi.Frame), stage + ": " + pi.Value}}
	}
	if err != nil {
		return []keyed{{fmt.Sprintf("json-fix %s %s-error", rootCell, stage), fmt.Sprintf("%s: %v (%s)", stage, err, clipBytes(b1, 300))}}
	}
	for _, d := range vocab.DiffTop(v1, v2, vocab.JSONForm) {
		k := d.Key("json-fix")
		if d.Cell == "root" {
			k = fmt.Sprintf("json-fix %s root:%s", rootCell, d.Shape)
		}
		ds = append(ds, keyed{k, "decode(encode(v)) differs from v: " + d.String() + " (re-encoded: " + clipBytes(b1, 400) + ")"})
	}
	if !bytes.Equal(b1, b2) {
		ds = append(ds, keyed{fmt.Sprintf("json-fix %s bytes-change", rootCell), fmt.Sprintf("the encoded bytes still change: %s then %s", clipBytes(b1, 300), clipBytes(b2, 300))})
	}
	return ds
}

// c05Accounted: for repository mock documents there is no model; every member named by a declared term must be represented
// in the decoded value (nothing ignored) and every set field must come from the document (nothing invented).
func c05Accounted(doc []byte, v ap.Item, name string) (ds []keyed) {
	root, _, _, err := oracle.ParseJSON(doc)
	if err != nil || root.Kind != "object" {
		return nil
	}
	sv, ok := vocab.StructOf(v)
	if !ok {
		return nil
	}
	a := &accounting{}
	a.structValue(sv, root, true)
	for _, d := range a.ds {
		if strings.Contains(d.Key, "undeclared-member") {
			continue // extension members of real-world documents are not the vocabulary's business
		}
		ds = append(ds, keyed{strings.Replace(d.Key, "json-out", "json-read mock "+name, 1), d.Detail})
	}
	return ds
}

func TestC05(t *testing.T) {
	r := ev.Open(t, "C05")
	defer r.Close(t)
	r.Rule("cells: one document per struct type x field x admissible shape (the model is the expected value; the document is rendered by an independent writer: encoding/json scalars + jsonld tags), in two renderings " +
		"(canonical; reversed member order with single values wrapped in arrays, single tagged strings as one-entry language maps, @context); random: random models nested to the depth bound with random neutral " +
		"rendering choices (member order, v vs [v], plain vs Map, zone offsets, &<>/ written as they are or as JSON escapes); mocks: the 19 repository documents and their structure-preserving mutations (v <-> [v], member order). Oracle: Diff(model, decoded) under " +
		"the JSON normal form (nothing ignored, invented or misplaced) + same concrete type; fixpoint decode/encode/decode/encode (values equal, bytes stable); mocks: declared members accounted for in the value. " +
		"non-trivial = document has a member besides id/type/@context; distinct by document bytes")
	r.Assume("IRIs absolute, ids of list members pairwise non-equivalent, durations whole seconds below 27 days, floats n/64")

	if r.WantLayer("cells", true) {
		cells, _ := vocab.SingleCells(false)
		// embedded objects that have neither id nor type and say one thing only: what they say is in the document, so it is in the value
		cells = append(cells, vocab.AnonymousCells(false)...)
		done := 0
		for ri, ch := range []docChooser{fixedChoices{false}, fixedChoices{true}} {
			for _, c := range cells {
				id := fmt.Sprintf("r%d %s", ri, c.ID)
				if !r.WantCell(id) {
					continue
				}
				done++
				doc := writeDoc(c.Value, ch)
				ds := c05Check(doc, c.Value, c.Type.Name()+"."+c.Field.Name, false)
				r.Case(string(doc), true, fmt.Sprintf("cells rendering=%d", ri), "cells kind="+string(c.Field.Kind))
				if done%331 == 0 {
					r.Sample(id, map[string]interface{}{"layer": "cells", "cell": c.ID, "document": string(doc)})
				}
				reportAll(r, "cells", id, ds, map[string]interface{}{"cell": c.ID, "document": string(doc)})
			}
		}
		r.Cells(2*len(cells), done)
		r.Exhaustive("cells", !r.Replaying())
	}

	if r.WantLayer("types", true) {
		// one every-member document per vocabulary type name: the reader's tables switch on the name
		n := 0
		for _, st := range vocab.StructTypes {
			for _, tn := range vocab.NamesFor(st.Name()) {
				for ri, ch := range []docChooser{fixedChoices{false}, fixedChoices{true}} {
					id := fmt.Sprintf("r%d %s[%s]", ri, st.Name(), tn)
					if !r.WantCell(id) {
						continue
					}
					n++
					x := vocab.Everything(st, false)
					sv, _ := vocab.StructOf(x)
					sv.FieldByName("Type").SetString(string(tn))
					doc := writeDoc(x, ch)
					ds := c05Check(doc, x, st.Name()+".*", false)
					r.Case(string(doc), true, "types")
					reportAll(r, "types", id, ds, map[string]interface{}{"type": string(tn), "document": string(doc)})
				}
			}
		}
		r.Cells(n, n)
		r.Exhaustive("types", !r.Replaying())
	}

	if r.WantLayer("mocks", true) {
		files, _ := filepath.Glob("/repo/tests/mocks/*.json")
		sort.Strings(files)
		done := 0
		for _, f := range files {
			doc, err := os.ReadFile(f)
			name := filepath.Base(f)
			if err != nil || !r.WantCell(name) {
				continue
			}
			done++
			var v ap.Item
			if pi := evSafe(func() { v, err = ap.UnmarshalJSON(doc) }); pi != nil {
				r.Report("mocks", name, "json-read mock "+name+" panic@"+pi.Frame, pi.Value, name)
				continue
			}
			r.Case(string(doc), true, "mocks")
			r.Sample(name, map[string]interface{}{"layer": "mocks", "file": name, "decoded_type": fmt.Sprintf("%T", v)})
			if err != nil || vocab.IsEmptyItem(v) {
				var generic map[string]interface{}
				_ = json.Unmarshal(doc, &generic)
				_, hasID := generic["id"]
				_, hasType := generic["type"]
				if hasID || hasType {
					r.Report("mocks", name, "json-read mock "+name+" not-decoded", fmt.Sprintf("err=%v value=%v", err, v), name)
				} else if len(generic) > 0 {
					// not an item document: a bare language map; it must decode as natural-language values, entry for entry
					var nl ap.NaturalLanguageValues
					if pi := evSafe(func() { err = nl.UnmarshalJSON(doc) }); pi != nil || err != nil {
						r.Report("mocks", name, "json-read mock "+name+" language-map", fmt.Sprintf("panic=%v err=%v", pi, err), name)
					} else {
						for tag, txt := range generic {
							if s, ok := txt.(string); ok && s != "" && string(nl.Get(ap.LangRef(tag))) != s {
								r.Report("mocks", name, "json-read mock "+name+" language-map", fmt.Sprintf("entry %q: document says %q, decoded %q", tag, s, nl.Get(ap.LangRef(tag))), name)
							}
						}
					}
				}
				continue
			}
			ds := c05Accounted(doc, v, name)
			ds = append(ds, c05Fixpoint(v, "mock:"+name)...)
			// structure-preserving mutations decode to the same value
			var tree interface{}
			if json.Unmarshal(doc, &tree) == nil {
				for mi, mut := range c05Mutations(tree) {
					mb, _ := json.Marshal(mut)
					var mv ap.Item
					if pi := evSafe(func() { mv, err = ap.UnmarshalJSON(mb) }); pi != nil || err != nil {
						ds = append(ds, keyed{"json-read mock " + name + " mutation-fails", fmt.Sprintf("mutation %d: panic=%v err=%v", mi, pi, err)})
						continue
					}
					r.Case(string(mb), true, "mocks mutation")
					for _, d := range vocab.DiffTop(v, mv, vocab.JSONForm) {
						ds = append(ds, keyed{fmt.Sprintf("json-read mock %s mutation %s", name, d.Cell), fmt.Sprintf("mutation %d decodes differently: %s (document %s)", mi, d.String(), clipBytes(mb, 300))})
					}
				}
			}
			reportAll(r, "mocks", name, ds, name)
		}
		r.Cells(len(files), done)
		r.Exhaustive("mocks", !r.Replaying())
	}

	r.Rapid(t, "random", r.Pick(2500, 15000), func(t *rapid.T) {
		depth := rapid.IntRange(0, r.Pick(3, 4)).Draw(t, "depth")
		g := vocab.NewGen(t, vocab.Opts{MaxDepth: depth, MaxList: r.Pick(4, 6)})
		gt := rapid.SampledFrom(goTypeNames).Draw(t, "gotype")
		x := g.Value(gt, depth, false)
		doc := writeDoc(x, rapidChoices{t})
		ds := c05Check(doc, x, gt+".*", false)
		ft := vocab.FeaturesOf(x)
		r.Case(string(doc), ft.SetProps >= 1, append(ft.Labels("random"), "random")...)
		r.Sample(string(doc), map[string]interface{}{"layer": "random", "document": string(doc)})
		failUnknown(r, t, "random", ds, map[string]interface{}{"document": string(doc), "model": vocab.Dump(x)})
	})
}

// item-valued terms (single item or list) taken from the declared vocabulary: the only members where v <-> [v] is neutral
var c05ItemTerms = func() map[string]bool {
	out := map[string]bool{}
	for _, st := range vocab.StructTypes {
		for _, f := range vocab.Fields(st) {
			if f.Kind == vocab.KItem || f.Kind == vocab.KItems {
				out[f.Term] = true
			}
		}
	}
	return out
}()

// c05Mutations returns structure-preserving variants of a parsed document: every item-valued member v <-> [v] (all at once),
// applied recursively to embedded objects.  (encoding/json sorts member names when re-serialising: that is the reordering.)
func c05Mutations(tree interface{}) []interface{} {
	var wrap func(n interface{}, inItemPos bool) interface{}
	wrap = func(n interface{}, inItemPos bool) interface{} {
		switch v := n.(type) {
		case map[string]interface{}:
			out := map[string]interface{}{}
			for k, val := range v {
				if !c05ItemTerms[k] || k == "@context" {
					out[k] = val
					continue
				}
				switch vv := val.(type) {
				case []interface{}:
					if len(vv) == 1 {
						out[k] = wrap(vv[0], true)
					} else {
						var l []interface{}
						for _, e := range vv {
							l = append(l, wrap(e, true))
						}
						out[k] = l
					}
				case string, map[string]interface{}:
					out[k] = []interface{}{wrap(vv, true)}
				default:
					out[k] = val
				}
			}
			return out
		}
		return n
	}
	return []interface{}{tree, wrap(tree, false)}
}
