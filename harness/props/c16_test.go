package props

import (
	"fmt"
	"reflect"
	"regexp"
	"sort"
	"strings"
	"testing"

	ap "github.com/go-ap/activitypub"
	"pgregory.net/rapid"
	"verif/harness/ev"
	"verif/harness/oracle"
	"verif/harness/vocab"
)

// C16 — Flattening replaces embedded items by their own ids and nothing else.

var (
	c16ActivityItems = []string{"Actor", "Object", "Target", "Result", "Origin", "Instrument"}
	c16CoreItems     = []string{"Replies", "Likes", "Shares", "AttributedTo"}
	c16Lists         = []string{"To", "Bto", "CC", "BCC", "Audience"}
	c16NonCollection = []string{"Object", "Object", "Actor", "Activity", "Place", "Profile", "Tombstone", "Relationship", "IntransitiveActivity", "Question"}
)

func c16IsCollectionType(t reflect.Type) bool {
	return strings.Contains(t.Name(), "Collection")
}

// c16FlatOne is the reference rule for one item position: an embedded non-collection object with an id becomes IRI(id).
func c16FlatOne(it ap.Item) ap.Item { return c16Flat(it, false) }

// c16FlatAddressee is the rule for the members of to/bto/cc/bcc/audience: every addressee with an id becomes IRI(id) - the
// statement makes no exception for collections here (a followers collection is an ordinary addressee).
func c16FlatAddressee(it ap.Item) ap.Item { return c16Flat(it, true) }

func c16Flat(it ap.Item, collectionsToo bool) ap.Item {
	if vocab.IsEmptyItem(it) {
		return it
	}
	sv, ok := vocab.StructOf(it)
	if !ok || sv.Type().Name() == "Link" || (c16IsCollectionType(sv.Type()) && !collectionsToo) {
		return it
	}
	if id := sv.FieldByName("ID").String(); id != "" {
		return ap.IRI(id)
	}
	return it
}

func c16IdentKey(it ap.Item) string {
	if vocab.IsEmptyItem(it) {
		return ""
	}
	if i, ok := it.(ap.IRI); ok {
		return oracle.IDKey(string(i))
	}
	if sv, ok := vocab.StructOf(it); ok {
		if id := sv.FieldByName("ID").String(); id != "" {
			return oracle.IDKey(id)
		}
	}
	return ""
}

// c16FlatList returns the two accepted results for a list: element-wise, and element-wise after dropping repeated mentions.
func c16FlatList(l ap.ItemCollection) (full, dedup ap.ItemCollection) {
	if l == nil {
		return nil, nil
	}
	full, dedup = ap.ItemCollection{}, ap.ItemCollection{}
	seen := map[string]bool{}
	for _, it := range l {
		f := c16FlatAddressee(it)
		full = append(full, f)
		k := c16IdentKey(it)
		if k != "" && seen[k] {
			continue
		}
		if k != "" {
			seen[k] = true
		}
		dedup = append(dedup, f)
	}
	return
}

func c16SameItem(a, b ap.Item) bool {
	if vocab.IsEmptyItem(a) && vocab.IsEmptyItem(b) {
		return (a == nil) == (b == nil) || true
	}
	return len(vocab.ContentDiff(a, b)) == 0
}

func c16SameList(want, got ap.ItemCollection) bool {
	if len(want) != len(got) {
		return false
	}
	for i := range want {
		if !c16SameItem(want[i], got[i]) {
			return false
		}
	}
	return true
}

func c16Normalize(l ap.ItemCollection) ap.Item {
	switch len(l) {
	case 0:
		return nil
	case 1:
		return l[0]
	}
	return l
}

// c16SameItemPos compares an item position where a one-element list and its element are the same thing.
func c16SameItemPos(want, got ap.Item) bool {
	norm := func(it ap.Item) ap.Item {
		if l, ok := it.(ap.ItemCollection); ok {
			return c16Normalize(l)
		}
		return it
	}
	w, g := norm(want), norm(got)
	wl, wok := w.(ap.ItemCollection)
	gl, gok := g.(ap.ItemCollection)
	if wok || gok {
		return wok && gok && c16SameList(wl, gl)
	}
	return c16SameItem(w, g)
}

// c16AllIRIs collects every IRI-typed string reachable in a value.
func c16AllIRIs(x interface{}, into map[string]bool) {
	var walk func(v reflect.Value, depth int)
	walk = func(v reflect.Value, depth int) {
		if !v.IsValid() || depth > 50 {
			return
		}
		if v.Type() == vocab.TTime {
			return
		}
		switch v.Kind() {
		case reflect.String:
			if v.Type() == vocab.TIRI && v.Len() > 0 {
				into[v.String()] = true
			}
		case reflect.Ptr, reflect.Interface:
			if !v.IsNil() {
				walk(v.Elem(), depth+1)
			}
		case reflect.Struct:
			for i := 0; i < v.NumField(); i++ {
				if v.Type().Field(i).IsExported() {
					walk(v.Field(i), depth+1)
				}
			}
		case reflect.Slice:
			if v.Type().Elem().Kind() == reflect.Uint8 {
				return
			}
			for i := 0; i < v.Len(); i++ {
				walk(v.Index(i), depth+1)
			}
		}
	}
	walk(reflect.ValueOf(x), 0)
}

var (
	c16TypedNil = regexp.MustCompile(`\(\*\w+\)nil`)
	c16NilField = regexp.MustCompile(` \w+:nil\b`)
)

// c16NilNorm writes a dump with every nil pointer as the nil item and without the properties that hold nothing: a property holding
// a nil *Actor and the same property holding nil say the same (a list of one nil pointer becomes the pointer, then nil).
func c16NilNorm(dump string) string {
	return c16NilField.ReplaceAllString(c16TypedNil.ReplaceAllString(dump, "nil"), "")
}

// c16Entries lists the flatten entry points applicable to a Go type.
func c16Apply(entry string, x ap.Item) ap.Item {
	switch entry {
	case "FlattenProperties":
		return ap.FlattenProperties(x)
	case "FlattenActivityProperties":
		return ap.FlattenActivityProperties(x.(*ap.Activity))
	case "FlattenIntransitiveActivityProperties":
		return ap.FlattenIntransitiveActivityProperties(x.(*ap.IntransitiveActivity))
	case "FlattenObjectProperties":
		return ap.FlattenObjectProperties(x.(*ap.Object))
	case "FlattenActorProperties":
		return ap.FlattenActorProperties(x.(*ap.Actor))
	}
	panic(entry)
}

// c16Check flattens a clone of x through entry and compares with the reference.
func c16Check(entry string, x ap.Item) (ds []keyed, flatCount int) {
	work := vocab.CloneItem(x)
	var res ap.Item
	pi := evSafe(func() { res = c16Apply(entry, work) })
	if pi != nil {
		return []keyed{{"flatten " + entry + " panic@" + pi.Frame, pi.Value}}, 0
	}
	xv, _ := vocab.StructOf(x)
	rv, ok := vocab.StructOf(res)
	if !ok || rv.Type() != xv.Type() {
		return []keyed{{"flatten " + entry + " result-type", fmt.Sprintf("result is %T", res)}}, 0
	}
	gt := xv.Type().Name()
	flatItems := map[string]bool{}
	flatLists := map[string]bool{}
	for _, n := range c16CoreItems {
		flatItems[n] = true
	}
	for _, n := range c16Lists {
		flatLists[n] = true
	}
	switch gt {
	case "Activity":
		for _, n := range c16ActivityItems {
			flatItems[n] = true
		}
	case "IntransitiveActivity", "Question":
		for _, n := range c16ActivityItems {
			if n != "Object" {
				flatItems[n] = true
			}
		}
	}
	for _, f := range vocab.Fields(xv.Type()) {
		before, after := xv.Field(f.Index), rv.Field(f.Index)
		switch {
		case flatItems[f.Name] && f.Kind == vocab.KItem:
			var bi, ai ap.Item
			if !before.IsNil() {
				bi = before.Interface().(ap.Item)
			}
			if !after.IsNil() {
				ai = after.Interface().(ap.Item)
			}
			shape := vocab.ShapeOfItem(bi)
			if bl, isList := bi.(ap.ItemCollection); isList {
				full, dedup := c16FlatList(bl)
				for _, m := range bl {
					if c16IdentKey(m) != "" && !vocab.IsEmptyItem(m) {
						if _, isIRI := m.(ap.IRI); !isIRI {
							flatCount++
						}
					}
				}
				strict := false
				for _, an := range c16ActivityItems {
					strict = strict || an == f.Name
				}
				if strict {
					// actor, object, target, result, origin and instrument hold one item; when one of them holds a list the statement's
					// "stay as they were" is read literally: the list comes back member for member, each member as it was or flattened to
					// its own id - no member dropped, none unwrapped (the library leaves such lists alone)
					al, isList := ai.(ap.ItemCollection)
					ok := isList && len(al) == len(bl)
					for i := 0; ok && i < len(bl); i++ {
						ok = c16SameItem(bl[i], al[i]) || c16SameItem(c16FlatOne(bl[i]), al[i])
					}
					if !ok {
						ds = append(ds, keyed{fmt.Sprintf("flatten %s %s %s", entry, f.Name, shape),
							fmt.Sprintf("%s.%s: the list %s came back as %s (expected member for member, as it was or flattened to its id)", gt, f.Name, vocab.Dump(bi), vocab.Dump(ai))})
					}
					continue
				}
				if !c16SameItemPos(full, ai) && !c16SameItemPos(dedup, ai) {
					ds = append(ds, keyed{fmt.Sprintf("flatten %s %s %s", entry, f.Name, shape),
						fmt.Sprintf("%s.%s: %s flattened to %s, reference %s", gt, f.Name, vocab.Dump(bi), vocab.Dump(ai), vocab.Dump(c16Normalize(full)))})
				}
				continue
			}
			want := c16FlatOne(bi)
			if _, changed := want.(ap.IRI); changed {
				if _, was := bi.(ap.IRI); !was {
					flatCount++
				}
			}
			if !c16SameItemPos(want, ai) {
				ds = append(ds, keyed{fmt.Sprintf("flatten %s %s %s", entry, f.Name, shape),
					fmt.Sprintf("%s.%s: %s flattened to %s, reference %s", gt, f.Name, vocab.Dump(bi), vocab.Dump(ai), vocab.Dump(want))})
			}
		case flatLists[f.Name] && f.Kind == vocab.KItems:
			bl, al := before.Interface().(ap.ItemCollection), after.Interface().(ap.ItemCollection)
			full, dedup := c16FlatList(bl)
			pattern := c16ListPattern(bl)
			for _, m := range bl {
				if !vocab.IsEmptyItem(m) && c16IdentKey(m) != "" {
					if _, isIRI := m.(ap.IRI); !isIRI {
						flatCount++
					}
				}
			}
			if !c16SameList(full, al) && !c16SameList(dedup, al) {
				ds = append(ds, keyed{fmt.Sprintf("flatten %s %s list:%s", entry, f.Name, pattern),
					fmt.Sprintf("%s.%s: %s flattened to %s, reference %s (or without repeated mentions %s)", gt, f.Name, vocab.Dump(bl), vocab.Dump(al), vocab.Dump(full), vocab.Dump(dedup))})
			}
		default:
			if d := vocab.ContentDiff(before.Interface(), after.Interface()); len(d) > 0 {
				ds = append(ds, keyed{fmt.Sprintf("flatten %s other-property %s.%s", entry, gt, f.Name), "a property outside the flattened positions changed: " + strings.Join(d, "; ")})
			}
		}
	}
	// no invented IRIs
	orig, now := map[string]bool{}, map[string]bool{}
	c16AllIRIs(x, orig)
	c16AllIRIs(res, now)
	var invented []string
	for i := range now {
		if !orig[i] {
			invented = append(invented, i)
		}
	}
	sort.Strings(invented)
	if len(invented) > 0 {
		ds = append(ds, keyed{"flatten " + entry + " invented-iri", fmt.Sprintf("IRIs in the result that were not in the original: %q", invented)})
	}
	// idempotence
	if len(ds) == 0 {
		once := c16NilNorm(vocab.Dump(res))
		again := vocab.CloneItem(res)
		var res2 ap.Item
		if pi := evSafe(func() { res2 = c16Apply(entry, again) }); pi != nil {
			ds = append(ds, keyed{"flatten " + entry + " panic@" + pi.Frame + " second-pass", pi.Value})
		} else if twice := c16NilNorm(vocab.Dump(res2)); twice != once {
			ds = append(ds, keyed{"flatten " + entry + " idempotence", "flattening twice differs from flattening once: " + clipStr(once, 400) + " vs " + clipStr(twice, 400)})
		}
	}
	return ds, flatCount
}

func c16ListPattern(l ap.ItemCollection) string {
	has := map[string]bool{}
	seen := map[string]bool{}
	for _, m := range l {
		switch {
		case m == nil:
			has["nil"] = true
		case c16IdentKey(m) == "":
			has["idless"] = true
		default:
			if seen[c16IdentKey(m)] {
				has["dup"] = true
			}
			seen[c16IdentKey(m)] = true
			if _, ok := m.(ap.IRI); !ok {
				if sv, ok := vocab.StructOf(m); ok && sv.Type().Name() == "Link" {
					has["link"] = true
				} else {
					has["obj"] = true
				}
			}
		}
	}
	var ks []string
	for k := range has {
		ks = append(ks, k)
	}
	sort.Strings(ks)
	if len(ks) == 0 {
		return "iris"
	}
	return strings.Join(ks, "+")
}

// position shapes of the enumeration layer
func c16Shapes(c *vocab.Counter) []vocab.Shaped {
	mk := func(n string, it ap.Item) vocab.Shaped { return vocab.Shaped{Name: n, V: reflect.ValueOf(&it).Elem()} }
	return []vocab.Shaped{
		mk("iri", c.ID("i")),
		mk("obj", &ap.Object{ID: c.ID("o"), Type: ap.NoteType, Name: ap.DefaultNaturalLanguageValue("n")}),
		mk("actor", &ap.Actor{ID: c.ID("p"), Type: ap.PersonType, Inbox: c.ID("inbox")}),
		mk("activity", &ap.Activity{ID: c.ID("a"), Type: ap.LikeType, Object: &ap.Object{ID: c.ID("inner"), Type: ap.NoteType}}),
		mk("place", &ap.Place{ID: c.ID("pl"), Type: ap.PlaceType, Latitude: 2}),
		mk("objval", ap.Object{ID: c.ID("o"), Type: ap.NoteType}),
		mk("idless", &ap.Object{Type: ap.NoteType, Name: ap.DefaultNaturalLanguageValue("anonymous")}),
		mk("typeless-idless", &ap.Object{Name: ap.DefaultNaturalLanguageValue("#tag")}),
		// without an id it stays as it was - all of it: what it embeds in its own flattened positions is none of the outer value's business
		mk("idless-nested", &ap.Activity{Type: ap.FollowType, Actor: &ap.Actor{ID: c.ID("np"), Type: ap.PersonType}, Object: &ap.Object{ID: c.ID("no"), Type: ap.NoteType},
			To: ap.ItemCollection{&ap.Actor{ID: c.ID("nt"), Type: ap.PersonType}, c.ID("nt2")}}),
		mk("idless-nested-note", &ap.Object{Type: ap.NoteType, AttributedTo: &ap.Actor{ID: c.ID("na"), Type: ap.PersonType}, To: ap.ItemCollection{&ap.Actor{ID: c.ID("nb"), Type: ap.PersonType}}}),
		mk("link", &ap.Link{Type: ap.MentionType, Href: c.ID("h")}),
		mk("link-id", &ap.Link{ID: c.ID("l"), Type: ap.LinkType, Href: c.ID("h")}),
		// a nil pointer of a vocabulary type: nothing, and left as it is
		mk("nil-ptr:Actor", (*ap.Actor)(nil)),
		mk("nil-ptr:Object", (*ap.Object)(nil)),
		mk("list-with-nil-ptr", ap.ItemCollection{c.ID("before"), (*ap.Actor)(nil), &ap.Object{ID: c.ID("after"), Type: ap.NoteType}}),
		// lists in positions that usually hold one item
		mk("list-dup-iris", ap.ItemCollection{ap.IRI("https://example.com/dup/a"), ap.IRI("https://example.com/dup/b"), ap.IRI("https://example.com/dup/a")}),
		mk("list1-idless", ap.ItemCollection{&ap.Object{Type: ap.NoteType, Name: ap.DefaultNaturalLanguageValue("only member")}}),
		mk("list-obj-iri", ap.ItemCollection{&ap.Object{ID: c.ID("lo"), Type: ap.NoteType}, c.ID("li")}),
	}
}

func TestC16(t *testing.T) {
	r := ev.Open(t, "C16")
	defer r.Close(t)
	r.Rule("positions: every flattened position (actor, object, target, result, origin, instrument, replies, likes, shares, attributedTo) x 16 shapes (IRI, nil pointers alone and in a list, objects of several types with id in pointer and " +
		"value form, id-less objects, links with and without id, lists with a repeated IRI / one id-less member / an object and an IRI) through FlattenProperties and the typed helpers; lists: all lists of length <= 4 over {IRI a, object a, object b, id-less object, nil, a followers collection with members, an empty collection with id} in " +
		"every addressee property and in attributedTo; shared: one list (with repeated mentions and spare capacity) assigned to every ordered pair of addressee properties; random: random values with decoys at positions that must not be flattened. Oracle: deep copy with exactly the embedded non-collection objects that " +
		"have an id replaced by IRI(id) (repeated mentions in lists may or may not be dropped), every other property bit-identical, no IRI in the result that was not in the original, flatten twice == once. " +
		"non-trivial = at least one embedded object with id in a flattened position; distinct by entry point + canonical dump")
	r.Assume("embedded collections are not placed in flattened positions (the statement speaks of non-collection objects); lists only in the addressee properties and attributedTo")

	type target struct {
		gt, vt string
		entry  []string
	}
	targets := []target{
		{"Activity", "Create", []string{"FlattenProperties", "FlattenActivityProperties"}},
		{"Activity", "Block", []string{"FlattenProperties"}},
		{"IntransitiveActivity", "Travel", []string{"FlattenProperties", "FlattenIntransitiveActivityProperties"}},
		{"Question", "Question", []string{"FlattenProperties"}},
		{"Object", "Note", []string{"FlattenProperties", "FlattenObjectProperties"}},
		{"Place", "Place", []string{"FlattenProperties"}},
		{"Tombstone", "Tombstone", []string{"FlattenProperties"}},
		{"Actor", "Person", []string{"FlattenProperties", "FlattenActorProperties"}},
	}
	mkTop := func(tg target) (ap.Item, reflect.Value) {
		p := reflect.New(vocab.StructType(tg.gt))
		p.Elem().FieldByName("ID").SetString("https://example.com/top/1")
		p.Elem().FieldByName("Type").SetString(tg.vt)
		return p.Interface().(ap.Item), p.Elem()
	}

	if r.WantLayer("positions", true) {
		total, done := 0, 0
		for _, tg := range targets {
			for _, entry := range tg.entry {
				fields := append(append([]string{}, c16ActivityItems...), c16CoreItems...)
				fields = append(fields, "InReplyTo", "Context", "Location") // decoys: must stay embedded
				for _, fn := range fields {
					x0, xv := mkTop(tg)
					if !xv.FieldByName(fn).IsValid() {
						continue
					}
					_ = x0
					for _, sh := range c16Shapes(&vocab.Counter{}) {
						total++
						cell := fmt.Sprintf("%s %s[%s].%s %s", entry, tg.gt, tg.vt, fn, sh.Name)
						if !r.WantCell(cell) {
							continue
						}
						done++
						x, xv := mkTop(tg)
						xv.FieldByName(fn).Set(sh.V)
						ds, n := c16Check(entry, x)
						r.Case(cell, n > 0, "positions "+entry, "positions shape="+sh.Name)
						if done%97 == 0 {
							r.Sample(cell, map[string]interface{}{"layer": "positions", "entry": entry, "value": vocab.Dump(x)})
						}
						reportAll(r, "positions", cell, ds, vocab.Dump(x))
					}
				}
			}
		}
		r.Cells(total, done)
		r.Exhaustive("positions", !r.Replaying())
	}

	if r.WantLayer("lists", true) {
		mkEntry := func(k int) ap.Item {
			switch k {
			case 0:
				return ap.IRI("https://example.com/actors/a")
			case 1:
				return &ap.Actor{ID: "https://example.com/actors/a", Type: ap.PersonType}
			case 2:
				return &ap.Object{ID: "https://example.com/objects/b", Type: ap.NoteType}
			case 3:
				return &ap.Object{Type: ap.NoteType, Name: ap.DefaultNaturalLanguageValue("anonymous")}
			case 5:
				return &ap.OrderedCollection{ID: "https://example.com/actors/a/followers", Type: ap.OrderedCollectionType, TotalItems: 2,
					OrderedItems: ap.ItemCollection{ap.IRI("https://example.com/actors/x"), &ap.Actor{ID: "https://example.com/actors/y", Type: ap.PersonType}}}
			case 6:
				return &ap.Collection{ID: "https://example.com/groups/g/members", Type: ap.CollectionType}
			case 9:
				return (*ap.Actor)(nil) // a nil pointer among the addressees: left as it is, its neighbours are flattened
			case 7:
				return ap.IRI("https://example.com/actors/a?page=1") // another identity than actors/a: only the query differs
			case 8:
				return &ap.Object{ID: "https://example.com/actors/a?page=1&page=2", Type: ap.NoteType}
			case 10:
				return ap.IRI("https://example.com:8443/actors/a") // the same host name and path on another port: another server, another identity
			case 11:
				return &ap.Actor{ID: "https://example.com:8443/actors/a", Type: ap.PersonType}
			}
			return nil
		}
		var combos [][]int
		var build func(cur []int)
		build = func(cur []int) {
			if len(cur) > 0 {
				combos = append(combos, append([]int{}, cur...))
			}
			if len(cur) == 4 {
				return
			}
			for k := 0; k < 7; k++ {
				build(append(cur, k))
			}
		}
		build(nil)
		// near identities: actors/a as IRI and embedded, and two other identities whose ids differ from it only in the query
		near := []int{0, 1, 7, 8, 10, 11}
		var buildNear func(cur []int)
		buildNear = func(cur []int) {
			if len(cur) > 0 {
				dup := false
				for _, k := range cur {
					dup = dup || k >= 7
				}
				if dup {
					combos = append(combos, append([]int{}, cur...))
				}
			}
			if len(cur) == 3 {
				return
			}
			for _, k := range near {
				buildNear(append(cur, k))
			}
		}
		buildNear(nil)
		for _, cb := range [][]int{{9}, {9, 1}, {1, 9}, {0, 9, 2}, {9, 9, 2}, {2, 4, 9, 1}} {
			combos = append(combos, cb)
		}
		total, done := 0, 0
		for _, fn := range append(append([]string{}, c16Lists...), "AttributedTo") {
			for _, tg := range []target{targets[0], targets[4]} {
				for _, cb := range combos {
					total++
					if fn == "AttributedTo" {
						skip := false
						for _, k := range cb {
							if k == 5 || k == 6 {
								skip = true // collections in attributedTo: the statement speaks of non-collection objects there
							}
						}
						if skip {
							total--
							continue
						}
					}
					cell := fmt.Sprintf("FlattenProperties %s.%s %v", tg.gt, fn, cb)
					if !r.WantCell(cell) {
						continue
					}
					done++
					l := ap.ItemCollection{}
					for _, k := range cb {
						l = append(l, mkEntry(k))
					}
					x, xv := mkTop(tg)
					if fn == "AttributedTo" {
						var it ap.Item = l
						xv.FieldByName(fn).Set(reflect.ValueOf(&it).Elem())
					} else {
						xv.FieldByName(fn).Set(reflect.ValueOf(l))
					}
					ds, n := c16Check("FlattenProperties", x)
					r.Case(cell, n > 0, "lists "+fn, "lists pattern="+c16ListPattern(l))
					if done%1999 == 0 {
						r.Sample(cell, map[string]interface{}{"layer": "lists", "value": vocab.Dump(x)})
					}
					reportAll(r, "lists", cell, ds, vocab.Dump(x))
				}
			}
		}
		r.Cells(total, done)
		r.Exhaustive("lists", !r.Replaying())
	}

	// one list assigned to two addressee properties (a caller that built its recipients once): flattening works in place, property
	// after property, so what it leaves behind in the shared backing array is what the next property starts from
	if r.WantLayer("shared", true) {
		mkList := func(k int) ap.ItemCollection {
			a, b := ap.IRI("https://example.com/actors/a"), ap.IRI("https://example.com/actors/b")
			var l ap.ItemCollection
			switch k {
			case 0:
				l = ap.ItemCollection{&ap.Actor{ID: a, Type: ap.PersonType}, a, &ap.Actor{ID: b, Type: ap.PersonType}}
			case 1:
				l = ap.ItemCollection{a, b, a}
			case 2:
				l = ap.ItemCollection{&ap.Object{ID: a, Type: ap.NoteType}, &ap.Object{ID: a, Type: ap.NoteType}, b, &ap.Actor{ID: b, Type: ap.PersonType}}
			default:
				l = ap.ItemCollection{a, &ap.Actor{ID: b, Type: ap.PersonType}}
			}
			// spare capacity, as a list that was appended to has
			out := make(ap.ItemCollection, len(l), len(l)+3)
			copy(out, l)
			return out
		}
		total, done := 0, 0
		for _, tg := range []target{targets[0], targets[4], targets[7]} {
			for i, fa := range c16Lists {
				for j, fb := range c16Lists {
					if i == j {
						continue
					}
					for k := 0; k < 4; k++ {
						for _, entry := range tg.entry {
							total++
							cell := fmt.Sprintf("shared %s %s[%s] %s=%s list#%d", entry, tg.gt, tg.vt, fa, fb, k)
							if !r.WantCell(cell) {
								continue
							}
							done++
							x, xv := mkTop(tg)
							shared := mkList(k)
							xv.FieldByName(fa).Set(reflect.ValueOf(shared))
							xv.FieldByName(fb).Set(reflect.ValueOf(shared))
							full, dedup := c16FlatList(mkList(k))
							dump := vocab.Dump(x)
							var res ap.Item
							pi := evSafe(func() { res = c16Apply(entry, x) })
							r.Case(cell, true, "shared "+entry)
							if done%97 == 0 {
								r.Sample(cell, map[string]interface{}{"layer": "shared", "value": dump})
							}
							if pi != nil {
								r.Report("shared", cell, "flatten "+entry+" panic@"+pi.Frame+" shared-list", pi.Value, dump)
								continue
							}
							rv, ok := vocab.StructOf(res)
							if !ok {
								continue
							}
							for _, fn := range []string{fa, fb} {
								got := rv.FieldByName(fn).Interface().(ap.ItemCollection)
								if !c16SameList(full, got) && !c16SameList(dedup, got) {
									r.Report("shared", cell, fmt.Sprintf("flatten %s %s shared-list", entry, fn),
										fmt.Sprintf("%s.%s shares its list with another addressee property: flattened to %s, reference %s (or without repeated mentions %s)", tg.gt, fn, vocab.Dump(got), vocab.Dump(full), vocab.Dump(dedup)), dump)
								}
							}
						}
					}
				}
			}
		}
		r.Cells(total, done)
		r.Exhaustive("shared", !r.Replaying())
	}

	r.Rapid(t, "random", r.Pick(2500, 20000), func(t *rapid.T) {
		tg := targets[rapid.IntRange(0, len(targets)-1).Draw(t, "target")]
		entry := tg.entry[rapid.IntRange(0, len(tg.entry)-1).Draw(t, "entry")]
		vt := tg.vt
		if tg.gt == "Activity" || tg.gt == "Object" || tg.gt == "Actor" {
			names := vocab.NamesFor(tg.gt)
			vt = string(names[rapid.IntRange(0, len(names)-2).Draw(t, "vtype")]) // not the generic name
		}
		g := vocab.NewGen(t, vocab.Opts{MaxDepth: 2, Gob: true, ValueForms: true, NoLists: true, OnlyTypes: c16NonCollection, MaxNodes: 12, Density: []int{10, 25, 50, 75}})
		x := g.Value(tg.gt, 2, false)
		xv, _ := vocab.StructOf(x)
		xv.FieldByName("Type").SetString(vt)
		// addressee lists and attributedTo from a small pool with duplicates, nil and id-less entries
		pool := []ap.IRI{g.ID("who"), g.ID("who"), g.ID("who")}
		member := func() ap.Item {
			who := pool[rapid.IntRange(0, len(pool)-1).Draw(t, "who")]
			switch rapid.IntRange(0, 9).Draw(t, "form") {
			case 0, 1, 2:
				return who
			case 3, 4:
				return &ap.Actor{ID: who, Type: ap.PersonType}
			case 5:
				return ap.Object{ID: who, Type: ap.NoteType}
			case 6:
				return &ap.Object{Type: ap.NoteType, Name: ap.DefaultNaturalLanguageValue(g.ID("x").String())}
			case 7:
				return &ap.Link{Type: ap.MentionType, Href: who}
			case 8:
				return nil
			}
			return &ap.Object{ID: who, Type: ap.ArticleType, Summary: ap.DefaultNaturalLanguageValue("s")}
		}
		for _, fn := range append(append([]string{}, c16Lists...), "AttributedTo") {
			if rapid.IntRange(0, 2).Draw(t, "setlist") != 0 {
				continue
			}
			n := rapid.IntRange(0, 6).Draw(t, "len")
			l := ap.ItemCollection{}
			for i := 0; i < n; i++ {
				l = append(l, member())
			}
			if fn == "AttributedTo" {
				var it ap.Item = l
				if n == 0 {
					it = member()
				}
				if it != nil {
					xv.FieldByName(fn).Set(reflect.ValueOf(&it).Elem())
				}
			} else {
				xv.FieldByName(fn).Set(reflect.ValueOf(l))
			}
		}
		dump := vocab.Dump(x)
		ds, n := c16Check(entry, x)
		r.Case(entry+" "+dump, n > 0, "random entry="+entry, "random type="+tg.gt)
		r.Sample(dump, map[string]interface{}{"layer": "random", "entry": entry, "value": dump})
		failUnknown(r, t, "random", ds, map[string]interface{}{"entry": entry, "value": dump})
	})
}
