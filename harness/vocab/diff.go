package vocab

import (
	"fmt"
	"reflect"
	"sort"
	"strings"
	"time"

	ap "github.com/go-ap/activitypub"
)

// Form selects the normal form a comparison grants.
//
//	JSON form (Gob=false): instants compared after truncation to whole seconds; unset == empty; natural-language entries
//	  with empty text are absent; an Item position holding a one-element list == that element; a single language entry
//	  compares on text only; language maps compare as sets of (tag,text); pointer == value; IRIs == list of IRI items.
//	Gob form (Gob=true): only the unset/empty clauses and pointer == value; instants equal to the nanosecond; tags and entry
//	  order are compared.
type Form struct {
	Gob bool
}

var (
	JSONForm = Form{}
	GobForm  = Form{Gob: true}
)

// Diff is one difference between an expected and an observed value.
type Diff struct {
	Path  string // Activity.Object→Place.Latitude
	Cell  string // Place.Latitude
	Shape string // shape class of the expected value at that cell
	Want  string
	Got   string
}

func (d Diff) String() string {
	return fmt.Sprintf("%s [%s] at %s: want %s got %s", d.Cell, d.Shape, d.Path, clip(d.Want, 900), clip(d.Got, 900))
}

// Key renders the finding key of a difference: "<prefix> <GoType>.<Field> <shape>".
func (d Diff) Key(prefix string) string { return prefix + " " + d.Cell + " " + d.Shape }

func clip(s string, n int) string {
	if len(s) > n {
		return s[:n] + "…"
	}
	return s
}

// IsEmptyItem: nil, typed nil pointer, empty IRI, empty list.
func IsEmptyItem(it ap.Item) bool {
	if it == nil {
		return true
	}
	v := reflect.ValueOf(it)
	if v.Kind() == reflect.Ptr && v.IsNil() {
		return true
	}
	switch x := it.(type) {
	case ap.IRI:
		return len(x) == 0
	case ap.ItemCollection:
		return len(x) == 0
	case ap.IRIs:
		return len(x) == 0
	case *ap.ItemCollection:
		return len(*x) == 0
	case *ap.IRIs:
		return len(*x) == 0
	}
	return false
}

// NormItem applies: one-element list == element, IRIs == list of IRI, value == pointer, empty == nil.
func NormItem(it ap.Item) ap.Item {
	if IsEmptyItem(it) {
		return nil
	}
	switch x := it.(type) {
	case ap.ItemCollection:
		if len(x) == 1 {
			return NormItem(x[0])
		}
		return x
	case *ap.ItemCollection:
		return NormItem(*x)
	case ap.IRIs:
		c := make(ap.ItemCollection, len(x))
		for i := range x {
			c[i] = x[i]
		}
		return NormItem(c)
	case *ap.IRIs:
		return NormItem(*x)
	case *ap.IRI:
		return *x
	}
	v := reflect.ValueOf(it)
	if v.Kind() == reflect.Struct {
		p := reflect.New(v.Type())
		p.Elem().Set(v)
		return p.Interface().(ap.Item)
	}
	return it
}

// normKeepSingle is NormItem without "one-element list == element".
func normKeepSingle(it ap.Item) ap.Item {
	if IsEmptyItem(it) {
		return nil
	}
	switch x := it.(type) {
	case ap.ItemCollection:
		return x
	case *ap.ItemCollection:
		return *x
	case ap.IRIs:
		return x // a list of IRIs stored as such is read back as such
	case *ap.IRIs:
		return *x
	}
	return NormItem(it)
}

// ShapeOfItem is the shape class used in finding keys.
func ShapeOfItem(it ap.Item) string {
	it = NormItem(it)
	if it == nil {
		return "nil"
	}
	switch x := it.(type) {
	case ap.IRI:
		return "iri"
	case ap.ItemCollection:
		has := map[string]bool{}
		for _, m := range x {
			s := ShapeOfItem(m)
			if strings.HasPrefix(s, "obj:") {
				s = "obj"
			}
			has[s] = true
		}
		var ks []string
		for k := range has {
			ks = append(ks, k)
		}
		sort.Strings(ks)
		return "list:" + strings.Join(ks, "+")
	}
	t := reflect.TypeOf(it)
	if t.Kind() == reflect.Ptr {
		t = t.Elem()
	}
	if t.Name() == "Link" {
		return "link"
	}
	s := "obj:" + t.Name()
	if len(it.GetID()) == 0 {
		s += "-idless"
	}
	return s
}

func shapeOfList(l ap.ItemCollection) string {
	if len(l) == 1 {
		s := ShapeOfItem(l[0])
		if strings.HasPrefix(s, "obj:") {
			s = "obj"
		}
		return "list1:" + s
	}
	return ShapeOfItem(l)
}

// Render gives a short human-readable rendering of a value for diff messages.
func Render(x interface{}) string {
	if x == nil {
		return "<nil>"
	}
	if it, ok := x.(ap.Item); ok && !IsEmptyItem(it) {
		return clip(fmt.Sprintf("%T%s", x, Dump(it)), 300)
	}
	return clip(strings.ReplaceAll(fmt.Sprintf("%T(%+v)", x, x), "\n", " "), 300)
}

// DiffItems compares two items under a normal form.
func DiffItems(path, cell string, want, got ap.Item, f Form, out *[]Diff) {
	w, g := NormItem(want), NormItem(got)
	if f.Gob {
		// the binary form has no reason to unwrap a list of one: stored as a list, read back as a list
		w, g = normKeepSingle(want), normKeepSingle(got)
	}
	if w == nil && g == nil {
		return
	}
	if w == nil || g == nil {
		*out = append(*out, Diff{path, cell, ShapeOfItem(want), Render(w), Render(g)})
		return
	}
	switch wx := w.(type) {
	case ap.IRI:
		if gx, ok := g.(ap.IRI); !ok || gx != wx {
			*out = append(*out, Diff{path, cell, "iri", Render(w), Render(g)})
		}
		return
	case ap.IRIs:
		gx, ok := g.(ap.IRIs)
		if !ok || len(gx) != len(wx) {
			*out = append(*out, Diff{path, cell, "iris", Render(w), Render(g)})
			return
		}
		for i := range wx {
			if wx[i] != gx[i] {
				*out = append(*out, Diff{fmt.Sprintf("%s[%d]", path, i), cell, "iris", Render(wx[i]), Render(gx[i])})
			}
		}
		return
	case ap.ItemCollection:
		gx, ok := g.(ap.ItemCollection)
		if !ok {
			*out = append(*out, Diff{path, cell, ShapeOfItem(want), listSummary(wx), Render(g)})
			return
		}
		if len(gx) != len(wx) {
			*out = append(*out, Diff{path, cell, ShapeOfItem(want), listSummary(wx), listSummary(gx)})
			return
		}
		for i := range wx {
			DiffItems(fmt.Sprintf("%s[%d]", path, i), cell, wx[i], gx[i], f, out)
		}
		return
	}
	wt, gt := reflect.TypeOf(w), reflect.TypeOf(g)
	if wt != gt {
		*out = append(*out, Diff{path, cell, "type:" + wt.Elem().Name(), wt.String(), Render(g)})
		return
	}
	DiffStruct(path+"→"+wt.Elem().Name(), reflect.ValueOf(w).Elem(), reflect.ValueOf(g).Elem(), f, out)
}

type nlPair struct{ Tag, Text string }

func normNLV(n ap.NaturalLanguageValues, f Form) []nlPair {
	var out []nlPair
	for _, e := range n {
		if len(e.Value) == 0 {
			continue
		}
		tag := string(e.Ref)
		if tag == "" {
			tag = string(ap.NilLangRef)
		}
		out = append(out, nlPair{tag, string(e.Value)})
	}
	if !f.Gob {
		if len(out) == 1 {
			out[0].Tag = string(ap.NilLangRef)
		}
		sort.Slice(out, func(i, j int) bool {
			if out[i].Tag != out[j].Tag {
				return out[i].Tag < out[j].Tag
			}
			return out[i].Text < out[j].Text
		})
	}
	return out
}

// ShapeNLV: nl0 | nl1 | nl1tagged | nlN.
func ShapeNLV(n ap.NaturalLanguageValues) string {
	c, tagged := 0, false
	for _, e := range n {
		if len(e.Value) > 0 {
			c++
			if e.Ref != ap.NilLangRef && e.Ref != "" {
				tagged = true
			}
		}
	}
	switch {
	case c == 0:
		return "nl0"
	case c == 1 && tagged:
		return "nl1tagged"
	case c == 1:
		return "nl1"
	}
	return "nlN"
}

func DiffStruct(path string, w, g reflect.Value, f Form, out *[]Diff) {
	t := w.Type()
	for i := 0; i < t.NumField(); i++ {
		sf := t.Field(i)
		if !sf.IsExported() {
			continue
		}
		DiffValue(path+"."+sf.Name, t.Name()+"."+sf.Name, w.Field(i), g.Field(i), f, out)
	}
}

func signShape(neg bool) string {
	if neg {
		return "neg"
	}
	return "pos"
}

func DiffValue(p, cell string, wf, gf reflect.Value, f Form, out *[]Diff) {
	ft := wf.Type()
	switch {
	case ft.Kind() == reflect.Interface:
		var wi, gi ap.Item
		if !wf.IsNil() {
			wi, _ = wf.Interface().(ap.Item)
		}
		if !gf.IsNil() {
			gi, _ = gf.Interface().(ap.Item)
		}
		DiffItems(p, cell, wi, gi, f, out)
	case ft == TItems:
		wl, gl := wf.Interface().(ap.ItemCollection), gf.Interface().(ap.ItemCollection)
		if len(wl) != len(gl) {
			*out = append(*out, Diff{p, cell, shapeOfList(wl), listSummary(wl), listSummary(gl)})
			return
		}
		for i := range wl {
			DiffItems(fmt.Sprintf("%s[%d]", p, i), cell, wl[i], gl[i], f, out)
		}
	case ft == TNLV:
		wn, gn := normNLV(wf.Interface().(ap.NaturalLanguageValues), f), normNLV(gf.Interface().(ap.NaturalLanguageValues), f)
		if !reflect.DeepEqual(wn, gn) {
			*out = append(*out, Diff{p, cell, ShapeNLV(wf.Interface().(ap.NaturalLanguageValues)), fmt.Sprintf("%q", wn), fmt.Sprintf("%q", gn)})
		}
	case ft == TTime:
		wt, gt := wf.Interface().(time.Time), gf.Interface().(time.Time)
		if !f.Gob {
			wt, gt = wt.Truncate(time.Second), gt.Truncate(time.Second)
		}
		if wt.IsZero() && gt.IsZero() {
			return
		}
		if !wt.Equal(gt) {
			sh := "time"
			if wt.Nanosecond() != 0 {
				sh = "time-nanos"
			}
			*out = append(*out, Diff{p, cell, sh, wt.Format(time.RFC3339Nano), gt.Format(time.RFC3339Nano)})
		}
	case ft == TDur:
		if wf.Int() != gf.Int() {
			*out = append(*out, Diff{p, cell, signShape(wf.Int() < 0), fmt.Sprint(wf.Interface()), fmt.Sprint(gf.Interface())})
		}
	case ft == TContent:
		if string(wf.Bytes()) != string(gf.Bytes()) {
			*out = append(*out, Diff{p, cell, "content", fmt.Sprintf("%q", wf.Bytes()), fmt.Sprintf("%q", gf.Bytes())})
		}
	case ft.Kind() == reflect.String:
		if wf.String() != gf.String() {
			*out = append(*out, Diff{p, cell, "str", fmt.Sprintf("%q", wf.String()), fmt.Sprintf("%q", gf.String())})
		}
	case ft.Kind() == reflect.Uint || ft.Kind() == reflect.Uint64:
		if wf.Uint() != gf.Uint() {
			*out = append(*out, Diff{p, cell, "uint", fmt.Sprint(wf.Uint()), fmt.Sprint(gf.Uint())})
		}
	case ft.Kind() == reflect.Int64 || ft.Kind() == reflect.Int:
		if wf.Int() != gf.Int() {
			*out = append(*out, Diff{p, cell, signShape(wf.Int() < 0), fmt.Sprint(wf.Int()), fmt.Sprint(gf.Int())})
		}
	case ft.Kind() == reflect.Float64:
		if wf.Float() != gf.Float() {
			*out = append(*out, Diff{p, cell, signShape(wf.Float() < 0), fmt.Sprint(wf.Float()), fmt.Sprint(gf.Float())})
		}
	case ft.Kind() == reflect.Bool:
		if wf.Bool() != gf.Bool() {
			*out = append(*out, Diff{p, cell, fmt.Sprint(wf.Bool()), fmt.Sprint(wf.Bool()), fmt.Sprint(gf.Bool())})
		}
	case ft.Kind() == reflect.Struct:
		DiffStruct(p, wf, gf, f, out)
	case ft.Kind() == reflect.Ptr && ft.Elem().Kind() == reflect.Struct:
		we, ge := reflect.Zero(ft.Elem()), reflect.Zero(ft.Elem())
		if !wf.IsNil() {
			we = wf.Elem()
		}
		if !gf.IsNil() {
			ge = gf.Elem()
		}
		DiffStruct(p, we, ge, f, out)
	default:
		*out = append(*out, Diff{p, cell, "uncovered-kind:" + ft.String(), "", ""})
	}
}

// DiffTop compares two top-level items (root cell "root").
func DiffTop(want, got ap.Item, f Form) []Diff {
	var out []Diff
	DiffItems("", "root", want, got, f, &out)
	return out
}

// listSummary describes the members of a list briefly (shape and id).
func listSummary(l ap.ItemCollection) string {
	var sb strings.Builder
	fmt.Fprintf(&sb, "%d members:", len(l))
	for _, m := range l {
		if IsEmptyItem(m) {
			sb.WriteString(" nil")
			continue
		}
		fmt.Fprintf(&sb, " %s<%s>", ShapeOfItem(m), clip(Dump(m), 120))
	}
	return sb.String()
}
