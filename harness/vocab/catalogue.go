// Package vocab is the reflection-driven catalogue of the ActivityStreams vocabulary as the library declares it
// (struct fields + jsonld tags), a hand-written ground truth taken from the specification (type name -> family ->
// Go type), normal forms with a deep diff, a deep snapshot, and generators of well-formed values.
package vocab

import (
	"reflect"
	"strings"
	"time"

	ap "github.com/go-ap/activitypub"
)

var StructTypes = []reflect.Type{
	reflect.TypeOf(ap.Object{}), reflect.TypeOf(ap.Actor{}), reflect.TypeOf(ap.Activity{}), reflect.TypeOf(ap.IntransitiveActivity{}),
	reflect.TypeOf(ap.Question{}), reflect.TypeOf(ap.Collection{}), reflect.TypeOf(ap.CollectionPage{}), reflect.TypeOf(ap.OrderedCollection{}),
	reflect.TypeOf(ap.OrderedCollectionPage{}), reflect.TypeOf(ap.Place{}), reflect.TypeOf(ap.Profile{}), reflect.TypeOf(ap.Relationship{}),
	reflect.TypeOf(ap.Tombstone{}), reflect.TypeOf(ap.Link{}),
}

// StructType returns the struct type with the given Go name.
func StructType(name string) reflect.Type {
	for _, t := range StructTypes {
		if t.Name() == name {
			return t
		}
	}
	panic("unknown struct type " + name)
}

// Family of a vocabulary type name, from the ActivityStreams 2.0 vocabulary.
type Family string

const (
	FObject       Family = "object"
	FActor        Family = "actor"
	FActivity     Family = "activity"
	FIntransitive Family = "intransitive"
	FLink         Family = "link"
	FCollection   Family = "collection"
)

type TypeInfo struct {
	Name    ap.ActivityVocabularyType
	Family  Family
	GoType  string // name of the struct type that must represent it
	Generic bool   // abstract base name (Object, Activity, ...)
}

// GroundTruth is written from the ActivityStreams vocabulary / ActivityPub specification, not from the code.
var GroundTruth = func() []TypeInfo {
	var out []TypeInfo
	add := func(f Family, g string, generic bool, names ...string) {
		for _, n := range names {
			out = append(out, TypeInfo{ap.ActivityVocabularyType(n), f, g, generic})
		}
	}
	add(FObject, "Object", false, "Article", "Audio", "Document", "Event", "Image", "Note", "Page", "Video")
	add(FObject, "Object", true, "Object")
	add(FObject, "Place", false, "Place")
	add(FObject, "Profile", false, "Profile")
	add(FObject, "Relationship", false, "Relationship")
	add(FObject, "Tombstone", false, "Tombstone")
	add(FLink, "Link", false, "Link", "Mention")
	add(FActor, "Actor", false, "Application", "Group", "Organization", "Person", "Service")
	add(FActor, "Actor", true, "Actor")
	add(FActivity, "Activity", false, "Accept", "Add", "Announce", "Block", "Create", "Delete", "Dislike", "Flag", "Follow", "Ignore",
		"Invite", "Join", "Leave", "Like", "Listen", "Move", "Offer", "Reject", "Read", "Remove", "TentativeReject", "TentativeAccept",
		"Undo", "Update", "View")
	add(FActivity, "Activity", true, "Activity")
	add(FIntransitive, "IntransitiveActivity", false, "Arrive", "Travel")
	add(FIntransitive, "IntransitiveActivity", true, "IntransitiveActivity")
	add(FIntransitive, "Question", false, "Question")
	add(FCollection, "Collection", false, "Collection")
	add(FCollection, "OrderedCollection", false, "OrderedCollection")
	add(FCollection, "CollectionPage", false, "CollectionPage")
	add(FCollection, "OrderedCollectionPage", false, "OrderedCollectionPage")
	return out
}()

// InfoOf returns the ground-truth entry of a type name.
func InfoOf(name ap.ActivityVocabularyType) (TypeInfo, bool) {
	for _, ti := range GroundTruth {
		if ti.Name == name {
			return ti, true
		}
	}
	return TypeInfo{}, false
}

// NamesFor lists the vocabulary names whose ground-truth Go type is goType (generic names last).
func NamesFor(goType string) []ap.ActivityVocabularyType {
	var out, gen []ap.ActivityVocabularyType
	for _, ti := range GroundTruth {
		if ti.GoType == goType {
			if ti.Generic {
				gen = append(gen, ti.Name)
			} else {
				out = append(out, ti.Name)
			}
		}
	}
	return append(out, gen...)
}

var DefaultType = map[string]ap.ActivityVocabularyType{
	"Object": ap.NoteType, "Actor": ap.PersonType, "Activity": ap.LikeType, "IntransitiveActivity": ap.TravelType, "Question": ap.QuestionType,
	"Collection": ap.CollectionType, "CollectionPage": ap.CollectionPageType, "OrderedCollection": ap.OrderedCollectionType, "OrderedCollectionPage": ap.OrderedCollectionPageType,
	"Place": ap.PlaceType, "Profile": ap.ProfileType, "Relationship": ap.RelationshipType, "Tombstone": ap.TombstoneType, "Link": ap.LinkType,
}

type Kind string

const (
	KID        Kind = "id"
	KType      Kind = "type"
	KNLV       Kind = "nlv"
	KItem      Kind = "item"
	KItems     Kind = "items"
	KTime      Kind = "time"
	KDur       Kind = "duration"
	KMime      Kind = "mime"
	KLangRef   Kind = "langref"
	KIRI       Kind = "iri"
	KUint      Kind = "uint"
	KInt       Kind = "int"
	KFloat     Kind = "float"
	KString    Kind = "string"
	KBool      Kind = "bool"
	KSource    Kind = "source"
	KEndpoints Kind = "endpoints"
	KPublicKey Kind = "publickey"
	KUnknown   Kind = "unknown"
)

var (
	TItem      = reflect.TypeOf((*ap.Item)(nil)).Elem()
	TItems     = reflect.TypeOf(ap.ItemCollection{})
	TNLV       = reflect.TypeOf(ap.NaturalLanguageValues{})
	TTime      = reflect.TypeOf(time.Time{})
	TDur       = reflect.TypeOf(time.Duration(0))
	TIRI       = reflect.TypeOf(ap.IRI(""))
	TIRIs      = reflect.TypeOf(ap.IRIs{})
	TType      = reflect.TypeOf(ap.ActivityVocabularyType(""))
	TMime      = reflect.TypeOf(ap.MimeType(""))
	TLangRef   = reflect.TypeOf(ap.LangRef(""))
	TSource    = reflect.TypeOf(ap.Source{})
	TPublicKey = reflect.TypeOf(ap.PublicKey{})
	TEndpoints = reflect.TypeOf(&ap.Endpoints{})
	TContent   = reflect.TypeOf(ap.Content{})
)

type Field struct {
	Name  string
	Index int
	Type  reflect.Type
	Kind  Kind
	Term  string // jsonld term
}

func kindOf(sf reflect.StructField) Kind {
	ft := sf.Type
	switch {
	case sf.Name == "ID" && ft == TIRI:
		return KID
	case ft == TType && sf.Name == "Type":
		return KType
	case ft == TType:
		return KString // formerType
	case ft == TNLV:
		return KNLV
	case ft == TItems:
		return KItems
	case ft.Kind() == reflect.Interface:
		return KItem
	case ft == TTime:
		return KTime
	case ft == TDur:
		return KDur
	case ft == TMime:
		return KMime
	case ft == TLangRef:
		return KLangRef
	case ft == TIRI:
		return KIRI
	case ft == TSource:
		return KSource
	case ft == TPublicKey:
		return KPublicKey
	case ft == TEndpoints:
		return KEndpoints
	case ft.Kind() == reflect.Uint:
		return KUint
	case ft.Kind() == reflect.Int64 || ft.Kind() == reflect.Int:
		return KInt
	case ft.Kind() == reflect.Float64:
		return KFloat
	case ft.Kind() == reflect.String:
		return KString
	case ft.Kind() == reflect.Bool:
		return KBool
	}
	return KUnknown
}

var fieldCache = map[reflect.Type][]Field{}

// Fields computes the catalogue of one struct type by reflection, so that a field added by a change is picked up.
func Fields(t reflect.Type) []Field {
	if f, ok := fieldCache[t]; ok {
		return f
	}
	var out []Field
	for i := 0; i < t.NumField(); i++ {
		sf := t.Field(i)
		if !sf.IsExported() {
			continue
		}
		term := strings.Split(sf.Tag.Get("jsonld"), ",")[0]
		out = append(out, Field{sf.Name, i, sf.Type, kindOf(sf), term})
	}
	fieldCache[t] = out
	return out
}

// FieldByName finds a catalogue entry.
func FieldByName(t reflect.Type, name string) (Field, bool) {
	for _, f := range Fields(t) {
		if f.Name == name {
			return f, true
		}
	}
	return Field{}, false
}

// StructOf returns the addressable struct behind an item that is a pointer to (or a value of) one of the 14 types.
func StructOf(it ap.Item) (reflect.Value, bool) {
	if it == nil {
		return reflect.Value{}, false
	}
	v := reflect.ValueOf(it)
	if v.Kind() == reflect.Ptr {
		if v.IsNil() || v.Elem().Kind() != reflect.Struct {
			return reflect.Value{}, false
		}
		return v.Elem(), true
	}
	if v.Kind() == reflect.Struct {
		p := reflect.New(v.Type())
		p.Elem().Set(v)
		return p.Elem(), true
	}
	return reflect.Value{}, false
}

// GoTypeName returns the struct type name of an item ("IRI", "ItemCollection", "IRIs" for the non-struct items).
func GoTypeName(it ap.Item) string {
	if it == nil {
		return "nil"
	}
	t := reflect.TypeOf(it)
	if t.Kind() == reflect.Ptr {
		t = t.Elem()
	}
	return t.Name()
}
