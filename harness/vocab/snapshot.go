package vocab

import (
	"fmt"
	"reflect"
	"time"

	ap "github.com/go-ap/activitypub"
)

// Clone deep-copies a value by reflection: pointers, interfaces, structs and slices are followed; slices are copied up
// to their capacity (so that bytes in the spare capacity of the caller's buffers are part of the snapshot) and keep
// their length and capacity; time.Time is copied by value.
func Clone(v interface{}) interface{} {
	if v == nil {
		return nil
	}
	return cloneValue(reflect.ValueOf(v)).Interface()
}

// CloneItem deep-copies an item (nil stays nil).
func CloneItem(it ap.Item) ap.Item {
	if it == nil {
		return nil
	}
	return cloneValue(reflect.ValueOf(it)).Interface().(ap.Item)
}

func cloneValue(v reflect.Value) reflect.Value {
	if !v.IsValid() {
		return v
	}
	t := v.Type()
	if t == TTime {
		n := reflect.New(t).Elem()
		n.Set(v)
		return n
	}
	switch v.Kind() {
	case reflect.Ptr:
		if v.IsNil() {
			return reflect.Zero(t)
		}
		n := reflect.New(t.Elem())
		n.Elem().Set(cloneValue(v.Elem()))
		return n
	case reflect.Interface:
		if v.IsNil() {
			return reflect.Zero(t)
		}
		n := reflect.New(t).Elem()
		n.Set(cloneValue(v.Elem()))
		return n
	case reflect.Struct:
		n := reflect.New(t).Elem()
		for i := 0; i < v.NumField(); i++ {
			if !t.Field(i).IsExported() {
				continue
			}
			n.Field(i).Set(cloneValue(v.Field(i)))
		}
		return n
	case reflect.Slice:
		if v.IsNil() {
			return reflect.Zero(t)
		}
		n := reflect.MakeSlice(t, v.Cap(), v.Cap())
		full := v.Slice(0, v.Cap())
		for i := 0; i < v.Cap(); i++ {
			n.Index(i).Set(cloneValue(full.Index(i)))
		}
		return n.Slice(0, v.Len())
	default:
		n := reflect.New(t).Elem()
		n.Set(v)
		return n
	}
}

// ExactDiff compares two values with no normal form at all ("left exactly as it was"): nil and empty slices differ,
// slice lengths, capacities and the contents of the spare capacity are compared, instants must be identical including
// their zone offset, pointer-ness and dynamic types must agree.  It returns one line per differing path.
func ExactDiff(want, got interface{}) []string {
	var out []string
	exactDiff("", reflect.ValueOf(want), reflect.ValueOf(got), &out, 0)
	return out
}

// ContentDiff is ExactDiff without the slice capacities and the spare capacity: "the property is unchanged" is a statement
// about what the property holds, an implementation is free to re-allocate a list it does not change.
func ContentDiff(want, got interface{}) []string {
	var out []string
	ignoreCapacity = true
	exactDiff("", reflect.ValueOf(want), reflect.ValueOf(got), &out, 0)
	ignoreCapacity = false
	return out
}

// ignoreCapacity is only flipped by ContentDiff; the checks that use it are single-goroutine.
var ignoreCapacity bool

func exactDiff(path string, w, g reflect.Value, out *[]string, depth int) {
	if len(*out) > 20 || depth > 60 {
		return
	}
	if !w.IsValid() || !g.IsValid() {
		if w.IsValid() != g.IsValid() {
			*out = append(*out, fmt.Sprintf("%s: %s vs %s", path, describe(w), describe(g)))
		}
		return
	}
	if w.Type() != g.Type() {
		*out = append(*out, fmt.Sprintf("%s: dynamic type %s became %s", path, w.Type(), g.Type()))
		return
	}
	t := w.Type()
	if t == TTime {
		a, b := w.Interface().(time.Time), g.Interface().(time.Time)
		_, oa := a.Zone()
		_, ob := b.Zone()
		if !a.Equal(b) || oa != ob || a.IsZero() != b.IsZero() {
			*out = append(*out, fmt.Sprintf("%s: instant %s became %s", path, a.Format(time.RFC3339Nano), b.Format(time.RFC3339Nano)))
		}
		return
	}
	switch w.Kind() {
	case reflect.Ptr, reflect.Interface:
		if w.IsNil() || g.IsNil() {
			if w.IsNil() != g.IsNil() {
				*out = append(*out, fmt.Sprintf("%s: %s became %s", path, describe(w), describe(g)))
			}
			return
		}
		exactDiff(path, w.Elem(), g.Elem(), out, depth+1)
	case reflect.Struct:
		for i := 0; i < w.NumField(); i++ {
			if !t.Field(i).IsExported() {
				continue
			}
			exactDiff(path+"."+t.Field(i).Name, w.Field(i), g.Field(i), out, depth+1)
		}
	case reflect.Slice:
		if w.IsNil() != g.IsNil() {
			*out = append(*out, fmt.Sprintf("%s: %s became %s", path, describe(w), describe(g)))
			return
		}
		if w.Len() != g.Len() {
			*out = append(*out, fmt.Sprintf("%s: length %d became %d (%s -> %s)", path, w.Len(), g.Len(), describe(w), describe(g)))
			return
		}
		if ignoreCapacity {
			for i := 0; i < w.Len(); i++ {
				exactDiff(fmt.Sprintf("%s[%d]", path, i), w.Index(i), g.Index(i), out, depth+1)
			}
			return
		}
		if w.Cap() != g.Cap() {
			*out = append(*out, fmt.Sprintf("%s: capacity %d became %d", path, w.Cap(), g.Cap()))
			return
		}
		wf, gf := w.Slice(0, w.Cap()), g.Slice(0, g.Cap())
		for i := 0; i < w.Cap(); i++ {
			p := fmt.Sprintf("%s[%d]", path, i)
			if i >= w.Len() {
				p += "(spare capacity)"
			}
			exactDiff(p, wf.Index(i), gf.Index(i), out, depth+1)
		}
	default:
		if !reflect.DeepEqual(w.Interface(), g.Interface()) {
			*out = append(*out, fmt.Sprintf("%s: %s became %s", path, describe(w), describe(g)))
		}
	}
}

func describe(v reflect.Value) string {
	if !v.IsValid() {
		return "<nil>"
	}
	return clip(Dump(v.Interface()), 200)
}
