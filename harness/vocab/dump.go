package vocab

import (
	"fmt"
	"reflect"
	"strings"
	"time"

	ap "github.com/go-ap/activitypub"
)

// Dump renders any vocabulary value deterministically by reflection (only non-zero fields), independent of the
// library's encoders.  It is the canonical form used for distinctness hashing and for the samples in the evidence.
func Dump(x interface{}) string {
	var sb strings.Builder
	dumpValue(&sb, reflect.ValueOf(x), 0)
	return sb.String()
}

func dumpValue(sb *strings.Builder, v reflect.Value, depth int) {
	if !v.IsValid() {
		sb.WriteString("nil")
		return
	}
	if depth > 40 {
		sb.WriteString("…")
		return
	}
	t := v.Type()
	switch {
	case t == TTime:
		tm := v.Interface().(time.Time)
		sb.WriteString(tm.Format(time.RFC3339Nano))
		return
	case t == TDur:
		fmt.Fprintf(sb, "%ds", int64(v.Int())/int64(time.Second))
		if v.Int()%int64(time.Second) != 0 {
			fmt.Fprintf(sb, "+%dns", v.Int()%int64(time.Second))
		}
		return
	case t == TContent:
		fmt.Fprintf(sb, "%q", v.Bytes())
		return
	case t == TNLV:
		sb.WriteString("[")
		for i := 0; i < v.Len(); i++ {
			e := v.Index(i).Interface().(ap.LangRefValue)
			if i > 0 {
				sb.WriteString(",")
			}
			fmt.Fprintf(sb, "%s:%q", e.Ref, []byte(e.Value))
		}
		sb.WriteString("]")
		return
	}
	switch v.Kind() {
	case reflect.Interface:
		if v.IsNil() {
			sb.WriteString("nil")
			return
		}
		dumpValue(sb, v.Elem(), depth)
	case reflect.Ptr:
		if v.IsNil() {
			sb.WriteString("(*" + t.Elem().Name() + ")nil")
			return
		}
		sb.WriteString("&")
		dumpValue(sb, v.Elem(), depth)
	case reflect.Struct:
		sb.WriteString(t.Name() + "{")
		first := true
		for i := 0; i < v.NumField(); i++ {
			if !t.Field(i).IsExported() || v.Field(i).IsZero() {
				continue
			}
			if !first {
				sb.WriteString(" ")
			}
			first = false
			sb.WriteString(t.Field(i).Name + ":")
			dumpValue(sb, v.Field(i), depth+1)
		}
		sb.WriteString("}")
	case reflect.Slice:
		if v.IsNil() {
			sb.WriteString("nil")
			return
		}
		if t.Elem().Kind() == reflect.Uint8 {
			fmt.Fprintf(sb, "%q", v.Bytes())
			return
		}
		sb.WriteString(t.Name() + "[")
		for i := 0; i < v.Len(); i++ {
			if i > 0 {
				sb.WriteString(",")
			}
			dumpValue(sb, v.Index(i), depth+1)
		}
		sb.WriteString("]")
	case reflect.String:
		fmt.Fprintf(sb, "%q", v.String())
	case reflect.Bool:
		fmt.Fprint(sb, v.Bool())
	case reflect.Int, reflect.Int64, reflect.Int32:
		fmt.Fprint(sb, v.Int())
	case reflect.Uint, reflect.Uint64, reflect.Uint32, reflect.Uint8:
		fmt.Fprint(sb, v.Uint())
	case reflect.Float64, reflect.Float32:
		fmt.Fprint(sb, v.Float())
	default:
		fmt.Fprintf(sb, "%v", v.Interface())
	}
}
