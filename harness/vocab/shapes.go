package vocab

import (
	"fmt"
	"reflect"
	"strings"
	"time"

	ap "github.com/go-ap/activitypub"
)

// Counter hands out deterministic fresh ids for the enumeration layers.
type Counter struct{ n int }

func (c *Counter) ID(kind string) ap.IRI {
	c.n++
	return ap.IRI(fmt.Sprintf("https://example.com/%s/%d", kind, c.n))
}

// Shaped is one admissible value shape of a field.
type Shaped struct {
	Name string
	V    reflect.Value
}

func itemShapes(c *Counter) []Shaped {
	mk := func(n string, it ap.Item) Shaped { return Shaped{n, reflect.ValueOf(&it).Elem()} }
	out := itemShapesBase(c, mk)
	// an embedded value that says nothing but its type ({"type":"Place"}): the emptiness tests of the writers must count the type
	for _, st := range StructTypes {
		if st.Name() == "Link" {
			continue
		}
		p := reflect.New(st)
		p.Elem().FieldByName("Type").SetString(string(DefaultType[st.Name()]))
		out = append(out, mk("obj:"+st.Name()+"-typeonly", p.Interface().(ap.Item)))
	}
	return out
}

func itemShapesBase(c *Counter, mk func(n string, it ap.Item) Shaped) []Shaped {
	return []Shaped{
		mk("iri", c.ID("i")),
		// an IRI is allowed what a URL is not: characters outside ASCII, left as they are
		mk("iri-unicode", ap.IRI(string(c.ID("i"))+"/zoë/日本?q=é")),
		mk("obj:Object", &ap.Object{ID: c.ID("o"), Type: ap.NoteType, Name: ap.DefaultNaturalLanguageValue("txt-n")}),
		mk("obj:Object-idless", &ap.Object{Type: ap.ImageType, URL: c.ID("img")}),
		mk("obj:Object-typeless", &ap.Object{Name: ap.DefaultNaturalLanguageValue("txt-tag")}),
		mk("obj:Object-idonly", &ap.Object{ID: c.ID("o")}),
		mk("obj:Actor", &ap.Actor{ID: c.ID("p"), Type: ap.PersonType, Inbox: c.ID("inbox")}),
		mk("obj:Activity", &ap.Activity{ID: c.ID("a"), Type: ap.CreateType, Object: c.ID("o")}),
		mk("obj:IntransitiveActivity", &ap.IntransitiveActivity{ID: c.ID("a"), Type: ap.ArriveType, Actor: c.ID("p")}),
		mk("obj:Question", &ap.Question{ID: c.ID("q"), Type: ap.QuestionType, OneOf: ap.ItemCollection{c.ID("o1"), c.ID("o2")}}),
		mk("obj:Place", &ap.Place{ID: c.ID("pl"), Type: ap.PlaceType, Latitude: 1.5}),
		mk("obj:Profile", &ap.Profile{ID: c.ID("pr"), Type: ap.ProfileType, Describes: c.ID("p")}),
		mk("obj:Relationship", &ap.Relationship{ID: c.ID("r"), Type: ap.RelationshipType, Subject: c.ID("p")}),
		mk("obj:Tombstone", &ap.Tombstone{ID: c.ID("t"), Type: ap.TombstoneType, FormerType: ap.NoteType}),
		mk("obj:OrderedCollection", &ap.OrderedCollection{ID: c.ID("c"), Type: ap.OrderedCollectionType, TotalItems: 3, OrderedItems: ap.ItemCollection{c.ID("m1"), c.ID("m2")}}),
		mk("obj:Collection", &ap.Collection{ID: c.ID("c"), Type: ap.CollectionType, TotalItems: 3}),
		mk("obj:CollectionPage", &ap.CollectionPage{ID: c.ID("c"), Type: ap.CollectionPageType, Next: c.ID("next")}),
		mk("obj:OrderedCollectionPage", &ap.OrderedCollectionPage{ID: c.ID("c"), Type: ap.OrderedCollectionPageType, PartOf: c.ID("partof")}),
		mk("link", &ap.Link{Type: ap.MentionType, Href: c.ID("h")}),
		mk("link-id", &ap.Link{ID: c.ID("l"), Type: ap.LinkType, Href: c.ID("h")}),
		// a link relation is a registered name ("me", "canonical"), not a URL
		mk("link-rel-name", &ap.Link{Type: ap.LinkType, Href: c.ID("h"), Rel: "me"}),
		mk("objval:Object", ap.Object{ID: c.ID("o"), Type: ap.NoteType}),
		mk("objval:Actor", ap.Actor{ID: c.ID("p"), Type: ap.ServiceType, Outbox: c.ID("outbox")}),
		mk("objval:Activity", ap.Activity{ID: c.ID("a"), Type: ap.AnnounceType, Object: c.ID("o")}),
		mk("objval:OrderedCollection", ap.OrderedCollection{ID: c.ID("c"), Type: ap.OrderedCollectionType, TotalItems: 1, OrderedItems: ap.ItemCollection{c.ID("m")}}),
		mk("objval:Link", ap.Link{Type: ap.MentionType, Href: c.ID("h")}),
		// set, but holding nothing (what make(ItemCollection, 0) or a cleared list leaves in an item property): the property is absent
		// under the normal form - and the value that holds it is still all there
		mk("empty-list", ap.ItemCollection{}),
		mk("list1:iri", ap.ItemCollection{c.ID("i")}),
		mk("list1:obj", ap.ItemCollection{&ap.Object{ID: c.ID("o"), Type: ap.NoteType}}),
		mk("list2", ap.ItemCollection{c.ID("i"), &ap.Object{ID: c.ID("o"), Type: ap.NoteType}}),
		// two different ids, the second being the first with a query (and the reverse order, with one more key): members a decoder
		// that tells its members apart by their ids must both keep
		mk("list2:iri-then-query", func() ap.ItemCollection {
			base := c.ID("i")
			return ap.ItemCollection{base, base + "?page=2", &ap.Object{ID: base + "?page=2&sort=asc", Type: ap.NoteType}, base + "?page=3&sort=desc&q=a%20b"}
		}()),
		mk("list3:link", ap.ItemCollection{c.ID("i"), &ap.Link{ID: c.ID("l"), Type: ap.LinkType, Href: c.ID("h")}, &ap.Actor{ID: c.ID("p"), Type: ap.GroupType}}),
		mk("list-one-of-each-type", oneOfEach(c)),
		// strings of a kilobyte and more (a signed URL, a long query) in the plain string properties, with more strings behind them:
		// writers that reuse scratch space treat long and short strings differently
		mk("iri-long", ap.IRI(string(c.ID("i"))+"?blob="+strings.Repeat("iVBORw0KGgo-_A..", 80))),
		mk("obj:long-strings", &ap.Object{ID: ap.IRI(string(c.ID("o")) + "?sig=" + strings.Repeat("0123456789abcdef", 70)), Type: ap.ImageType, MediaType: ap.MimeType("image/png; note=" + strings.Repeat("x", 1100)),
			URL: ap.IRI(string(c.ID("img")) + "/" + strings.Repeat("QUJD", 300)), Name: ap.DefaultNaturalLanguageValue("txt-after-long")}),
	}
}

// oneOfEach builds a list holding one small value of every struct type (every list position must cope with every type).
func oneOfEach(c *Counter) ap.ItemCollection {
	var l ap.ItemCollection
	for _, st := range StructTypes {
		p := reflect.New(st)
		p.Elem().FieldByName("ID").SetString(string(c.ID("each-" + st.Name())))
		p.Elem().FieldByName("Type").SetString(string(DefaultType[st.Name()]))
		if f := p.Elem().FieldByName("Name"); f.IsValid() {
			f.Set(reflect.ValueOf(ap.DefaultNaturalLanguageValue("txt-" + st.Name())))
		}
		if st.Name() == "Link" {
			p.Elem().FieldByName("Href").SetString(string(c.ID("href")))
		}
		l = append(l, p.Interface().(ap.Item))
	}
	return l
}

func listShapes(c *Counter) []Shaped {
	mk := func(n string, it ap.ItemCollection) Shaped { return Shaped{n, reflect.ValueOf(it)} }
	return []Shaped{
		// set, but empty ("cc": [] / make(ItemCollection, 0)): the same as unset under the normal form, and nothing a codec may choke on
		mk("list0", ap.ItemCollection{}),
		mk("list-one-of-each-type", oneOfEach(c)),
		mk("list1:iri", ap.ItemCollection{c.ID("i")}),
		mk("list1:obj", ap.ItemCollection{&ap.Object{ID: c.ID("o"), Type: ap.NoteType}}),
		mk("list1:actor", ap.ItemCollection{&ap.Actor{ID: c.ID("p"), Type: ap.PersonType}}),
		mk("list1:link", ap.ItemCollection{&ap.Link{Type: ap.MentionType, Href: c.ID("h")}}),
		mk("list2", ap.ItemCollection{c.ID("i"), &ap.Actor{ID: c.ID("p"), Type: ap.PersonType}}),
		mk("list3", ap.ItemCollection{c.ID("i"), &ap.Object{ID: c.ID("o"), Type: ap.NoteType}, c.ID("j")}),
		mk("list4:iri-then-query", func() ap.ItemCollection {
			base := c.ID("i")
			return ap.ItemCollection{base, base + "?page=2", &ap.Object{ID: base + "?page=2&sort=asc", Type: ap.NoteType}, base + "?page=3&sort=desc&q=a%20b"}
		}()),
		mk("list3:link", ap.ItemCollection{&ap.Link{Type: ap.MentionType, Href: c.ID("h"), Name: ap.DefaultNaturalLanguageValue("txt-@a")}, &ap.Object{Name: ap.DefaultNaturalLanguageValue("txt-#tag")}, c.ID("j")}),
	}
}

// ShapesFor enumerates the admissible value shapes of one field (single-cell layer).
func ShapesFor(f Field, c *Counter, gob bool) []Shaped {
	ft := f.Type
	switch f.Kind {
	case KItem:
		var out []Shaped
		shapes := itemShapes(c)
		if gob {
			// a list held through a pointer (what ToItemCollection and the On* helpers hand out); JSON writes it like the list it points to
			l := ap.ItemCollection{c.ID("i"), &ap.Object{ID: c.ID("o"), Type: ap.NoteType}}
			var it ap.Item = &l
			shapes = append(shapes, Shaped{"listptr", reflect.ValueOf(&it).Elem()})
			// a list of IRIs under its own type: stored as one, read back as one
			var iris ap.Item = ap.IRIs{c.ID("i"), c.ID("j")}
			shapes = append(shapes, Shaped{"iris", reflect.ValueOf(&iris).Elem()})
		}
		for _, s := range shapes {
			v := reflect.New(ft).Elem()
			v.Set(s.V.Elem())
			out = append(out, Shaped{s.Name, v})
		}
		return out
	case KItems:
		return listShapes(c)
	case KNLV:
		mk := func(n string, v ap.NaturalLanguageValues) Shaped { return Shaped{n, reflect.ValueOf(v)} }
		out := []Shaped{
			// set, but saying nothing: no entries, and one entry without text - absent under the normal form, and no reason for the
			// value that holds it to go missing
			mk("nl-empty", ap.NaturalLanguageValues{}),
			mk("nl-textless", ap.NaturalLanguageValues{{Ref: "en", Value: ap.Content("")}}),
			mk("nl1", ap.NaturalLanguageValues{{Ref: ap.NilLangRef, Value: ap.Content("txt-plain value")}}),
			mk("nl1tagged", ap.NaturalLanguageValues{{Ref: "en", Value: ap.Content("txt-tagged value")}}),
			mk("nlN", ap.NaturalLanguageValues{{Ref: "en", Value: ap.Content("txt-english")}, {Ref: "fr", Value: ap.Content("txt-french")}}),
			mk("nl3", ap.NaturalLanguageValues{{Ref: "en", Value: ap.Content("txt-english")}, {Ref: "fr", Value: ap.Content("txt-french")}, {Ref: "de-DE", Value: ap.Content("txt-german")}}),
			mk("nl-untagged-last", ap.NaturalLanguageValues{{Ref: "en", Value: ap.Content("txt-english")}, {Ref: "fr", Value: ap.Content("txt-french")}, {Ref: ap.NilLangRef, Value: ap.Content("txt-default")}}),
		}
		// every character class the string writers treat on their own (each control character, DEL, quote, backslash, slash, the
		// JSONP separators U+2028/U+2029, a replacement character, 2-, 3- and 4-byte runes): valid UTF-8, so it must come back byte for byte
		out = append(out, mk("nl1-special", ap.NaturalLanguageValues{{Ref: ap.NilLangRef, Value: ap.Content(SpecialText)}}),
			mk("nlN-special", ap.NaturalLanguageValues{{Ref: "en", Value: ap.Content(SpecialText)}, {Ref: "fr", Value: ap.Content("autre " + SpecialText)}}))
		if gob {
			// a list may hold several values under one tag (the JSON form cannot say that, the binary form must keep it)
			out = append(out, mk("nl-repeated-tag", ap.NaturalLanguageValues{{Ref: ap.NilLangRef, Value: ap.Content("txt-first")}, {Ref: ap.NilLangRef, Value: ap.Content("txt-second")}, {Ref: "en", Value: ap.Content("txt-third")}, {Ref: "en", Value: ap.Content("txt-fourth")}}))
		}
		return out
	case KTime:
		out := []Shaped{
			{"time-utc", reflect.ValueOf(time.Date(2021, 3, 4, 5, 6, 7, 0, time.UTC))},
			{"time-zone", reflect.ValueOf(time.Date(2021, 3, 4, 5, 6, 7, 0, time.FixedZone("x", -5*3600)))},
			{"time-old", reflect.ValueOf(time.Date(1066, 10, 14, 9, 0, 0, 0, time.UTC))},
			// a local mean time: the zone's offset is not a whole number of minutes (Amsterdam until 1937: +00:19:32)
			{"time-lmt", reflect.ValueOf(time.Date(1921, 3, 4, 12, 0, 0, 0, time.FixedZone("LMT", 19*60+32)))},
		}
		if gob {
			out = append(out, Shaped{"time-nanos", reflect.ValueOf(time.Date(2021, 3, 4, 5, 6, 7, 123456789, time.FixedZone("y", 3600)))})
		}
		return out
	case KDur:
		return []Shaped{{"pos", reflect.ValueOf(3*time.Hour + 5*time.Second)}, {"neg", reflect.ValueOf(-90 * time.Second)}, {"days", reflect.ValueOf(50 * time.Hour)}, {"sec", reflect.ValueOf(7 * time.Second)},
			// round values: their lexical forms leave whole sections out (P1D has no time section, PT1H no date section)
			{"day", reflect.ValueOf(24 * time.Hour)}, {"neg-days", reflect.ValueOf(-48 * time.Hour)}, {"hour", reflect.ValueOf(time.Hour)}, {"minute", reflect.ValueOf(time.Minute)}, {"days26", reflect.ValueOf(26 * 24 * time.Hour)}}
	case KMime:
		v := reflect.New(ft).Elem()
		v.SetString("text/markdown")
		// a media type with a quoted parameter value: the quotes are part of it
		q := reflect.New(ft).Elem()
		q.SetString(`text/plain; charset="utf-8"`)
		return []Shaped{{"str", v}, {"quoted-param", q}}
	case KLangRef:
		v := reflect.New(ft).Elem()
		v.SetString("en-GB")
		return []Shaped{{"str", v}}
	case KIRI:
		v := reflect.New(ft).Elem()
		v.SetString(string(c.ID("s")))
		return []Shaped{{"str", v}}
	case KString:
		v := reflect.New(ft).Elem()
		if ft == TType {
			v.SetString("Note")
		} else {
			v.SetString("km")
		}
		return []Shaped{{"str", v}}
	case KUint:
		// boundary values next to zero (a guard written as != 1 or > 1 instead of != 0 loses exactly these)
		v, w, one, two := reflect.New(ft).Elem(), reflect.New(ft).Elem(), reflect.New(ft).Elem(), reflect.New(ft).Elem()
		v.SetUint(42)
		w.SetUint(1 << 40)
		one.SetUint(1)
		two.SetUint(2)
		// beyond 2^53: a reader or writer that goes through a float64 rounds it
		exact := reflect.New(ft).Elem()
		exact.SetUint(1<<53 + 1)
		return []Shaped{{"uint", v}, {"uint-big", w}, {"uint-one", one}, {"uint-two", two}, {"uint-2^53+1", exact}}
	case KInt:
		p, n, one, mone := reflect.New(ft).Elem(), reflect.New(ft).Elem(), reflect.New(ft).Elem(), reflect.New(ft).Elem()
		p.SetInt(7)
		n.SetInt(-7)
		one.SetInt(1)
		mone.SetInt(-1)
		exact, nexact := reflect.New(ft).Elem(), reflect.New(ft).Elem()
		exact.SetInt(1<<53 + 1)
		nexact.SetInt(-(1<<53 + 1))
		return []Shaped{{"pos", p}, {"neg", n}, {"one", one}, {"minus-one", mone}, {"2^53+1", exact}, {"-(2^53+1)", nexact}}
	case KFloat:
		p, n, w, one, mone, small := reflect.New(ft).Elem(), reflect.New(ft).Elem(), reflect.New(ft).Elem(), reflect.New(ft).Elem(), reflect.New(ft).Elem(), reflect.New(ft).Elem()
		p.SetFloat(12.515625)
		n.SetFloat(-12.515625)
		w.SetFloat(90)
		one.SetFloat(1)
		mone.SetFloat(-1)
		small.SetFloat(0.015625)
		return []Shaped{{"pos", p}, {"neg", n}, {"whole", w}, {"one", one}, {"minus-one", mone}, {"small", small}}
	case KBool:
		return []Shaped{{"true", reflect.ValueOf(true)}}
	case KSource:
		return []Shaped{
			{"source-full", reflect.ValueOf(ap.Source{MediaType: "text/markdown", Content: ap.DefaultNaturalLanguageValue("txt-*source*")})},
			{"source-content", reflect.ValueOf(ap.Source{Content: ap.DefaultNaturalLanguageValue("txt-source only")})},
			{"source-mime", reflect.ValueOf(ap.Source{MediaType: "text/markdown"})},
			{"source-mime-quoted-param", reflect.ValueOf(ap.Source{MediaType: `text/plain; charset="utf-8"`, Content: ap.DefaultNaturalLanguageValue("txt-src")})},
			{"source-nlN", reflect.ValueOf(ap.Source{MediaType: "text/markdown", Content: ap.NaturalLanguageValues{{Ref: "en", Value: ap.Content("txt-a")}, {Ref: "fr", Value: ap.Content("txt-b")}}})},
		}
	case KPublicKey:
		return []Shaped{
			{"key-full", reflect.ValueOf(ap.PublicKey{ID: c.ID("key"), Owner: c.ID("owner"), PublicKeyPem: "-----BEGIN PUBLIC KEY-----\nMIIB\n-----END PUBLIC KEY-----"})},
			{"key-idonly", reflect.ValueOf(ap.PublicKey{ID: c.ID("key")})},
			{"key-pemonly", reflect.ValueOf(ap.PublicKey{PublicKeyPem: "PEM"})},
			// (a key with nothing but an owner is "no key" for both encoders - they test id and key material - and is outside the domain)
			{"key-id-owner", reflect.ValueOf(ap.PublicKey{ID: c.ID("key"), Owner: c.ID("owner")})},
		}
	case KEndpoints:
		// each endpoint alone (a presence guard that looks at the wrong member loses exactly these), then all of them
		return []Shaped{
			{"endpoints-shared", reflect.ValueOf(&ap.Endpoints{SharedInbox: c.ID("shared")})},
			{"endpoints-upload", reflect.ValueOf(&ap.Endpoints{UploadMedia: c.ID("up")})},
			{"endpoints-oauth-auth", reflect.ValueOf(&ap.Endpoints{OauthAuthorizationEndpoint: c.ID("oa")})},
			{"endpoints-oauth-token", reflect.ValueOf(&ap.Endpoints{OauthTokenEndpoint: c.ID("ot")})},
			{"endpoints-provide-key", reflect.ValueOf(&ap.Endpoints{ProvideClientKey: c.ID("pk")})},
			{"endpoints-sign-key", reflect.ValueOf(&ap.Endpoints{SignClientKey: c.ID("sk")})},
			{"endpoints-empty", reflect.ValueOf(&ap.Endpoints{})},
			{"endpoints-embedded", reflect.ValueOf(&ap.Endpoints{SharedInbox: &ap.OrderedCollection{ID: c.ID("shared-inbox"), Type: ap.OrderedCollectionType, TotalItems: 1}, UploadMedia: c.ID("up")})},
			{"endpoints-all", reflect.ValueOf(&ap.Endpoints{SharedInbox: c.ID("shared"), UploadMedia: c.ID("up"), OauthAuthorizationEndpoint: c.ID("oa"), OauthTokenEndpoint: c.ID("ot"), ProvideClientKey: c.ID("pk"), SignClientKey: c.ID("sk")})},
		}
	}
	return nil
}

// SpecialText holds every character class the JSON string writer distinguishes, as valid UTF-8.
var SpecialText = func() string {
	var b []byte
	b = append(b, "txt-special:"...)
	for c := byte(1); c < 0x20; c++ {
		b = append(b, c, 'x')
	}
	b = append(b, 0x7f)
	b = append(b, " \" \\ / < > & ' \u2028 | \u2029 | \ufffd | é | 日 | 😀 | \U00012028 | \U00022029 | \U00010022 | \U0001005C | \\n \\u0041 end"...)
	return string(b)
}()

// Cell is one value of the single-cell enumeration: a struct with id, type and exactly one other field set.
type Cell struct {
	ID    string // "<GoType>.<Field> <shape>"
	Type  reflect.Type
	Field Field
	Shape string
	Value ap.Item
}

// SingleCells enumerates, for every struct type x field x admissible shape, a value with id, type and that one field set.
// Fields of a kind the catalogue does not know are returned in uncovered.
func SingleCells(gob bool) (cells []Cell, uncovered []string) {
	c := &Counter{}
	for _, st := range StructTypes {
		for _, f := range Fields(st) {
			if f.Kind == KID || f.Kind == KType {
				continue
			}
			shapes := ShapesFor(f, c, gob)
			if len(shapes) == 0 {
				uncovered = append(uncovered, st.Name()+"."+f.Name+" ("+f.Type.String()+")")
				continue
			}
			for _, sh := range shapes {
				p := reflect.New(st)
				p.Elem().FieldByName("ID").SetString(string(c.ID("top")))
				p.Elem().FieldByName("Type").SetString(string(DefaultType[st.Name()]))
				p.Elem().Field(f.Index).Set(sh.V)
				cells = append(cells, Cell{st.Name() + "." + f.Name + " " + sh.Name, st, f, sh.Name, p.Interface().(ap.Item)})
			}
		}
	}
	return
}

// Everything builds one value per struct type with every field set (first shape of each field, lists of two).
func Everything(st reflect.Type, gob bool) ap.Item {
	c := &Counter{}
	p := reflect.New(st)
	p.Elem().FieldByName("ID").SetString(string(c.ID("top")))
	p.Elem().FieldByName("Type").SetString(string(DefaultType[st.Name()]))
	for _, f := range Fields(st) {
		if f.Kind == KID || f.Kind == KType {
			continue
		}
		shapes := ShapesFor(f, c, gob)
		if len(shapes) == 0 {
			continue
		}
		pick := shapes[0]
		if f.Kind == KItems {
			pick = shapes[6]
		}
		if f.Kind == KNLV {
			pick = shapes[2] // the first shape that says something
		}
		p.Elem().Field(f.Index).Set(pick.V)
	}
	return p.Interface().(ap.Item)
}

// EverythingN is Everything with the n-th admissible shape of each field (n = 0 is Everything itself); the shapes that say nothing
// (the empty list, the language lists without text) are never picked.
func EverythingN(st reflect.Type, gob bool, n int) ap.Item {
	if n == 0 {
		return Everything(st, gob)
	}
	c := &Counter{}
	p := reflect.New(st)
	p.Elem().FieldByName("ID").SetString(string(c.ID("top")))
	p.Elem().FieldByName("Type").SetString(string(DefaultType[st.Name()]))
	for _, f := range Fields(st) {
		if f.Kind == KID || f.Kind == KType {
			continue
		}
		shapes := ShapesFor(f, c, gob)
		if f.Kind == KItems && len(shapes) > 1 {
			shapes = shapes[1:]
		}
		if f.Kind == KNLV && len(shapes) > 2 {
			shapes = shapes[2:]
		}
		var keep []Shaped
		for _, sh := range shapes {
			if sh.Name != "empty-list" && sh.Name != "endpoints-empty" {
				keep = append(keep, sh)
			}
		}
		if len(keep) == 0 {
			continue
		}
		p.Elem().Field(f.Index).Set(keep[(n*7+f.Index)%len(keep)].V)
	}
	return p.Interface().(ap.Item)
}

// OneProperty builds, for every field of st, the value that has its id, its type and that one property only (the n-th admissible
// shape of the field; the shapes that say nothing are skipped).
func OneProperty(st reflect.Type, gob bool, n int) (out []Cell) {
	c := &Counter{}
	for _, f := range Fields(st) {
		if f.Kind == KID || f.Kind == KType {
			continue
		}
		shapes := ShapesFor(f, c, gob)
		if f.Kind == KItems && len(shapes) > 1 {
			shapes = shapes[1:]
		}
		if f.Kind == KNLV && len(shapes) > 2 {
			shapes = shapes[2:]
		}
		var keep []Shaped
		for _, sh := range shapes {
			if sh.Name != "empty-list" && sh.Name != "endpoints-empty" {
				keep = append(keep, sh)
			}
		}
		if len(keep) == 0 {
			continue
		}
		sh := keep[(n*5+f.Index)%len(keep)]
		p := reflect.New(st)
		p.Elem().FieldByName("ID").SetString(string(c.ID("top")))
		p.Elem().FieldByName("Type").SetString(string(DefaultType[st.Name()]))
		p.Elem().Field(f.Index).Set(sh.V)
		out = append(out, Cell{st.Name() + "." + f.Name + " " + sh.Name, st, f, sh.Name, p.Interface().(ap.Item)})
	}
	return
}

// AnonymousCells enumerates, for every field of Object x its first shapes, an embedded object that has neither id nor type
// and only that one property (the statement: "embedded objects may lack type and id"), placed in an item property and in a
// list property of a Note.  What such an object says must not be judged "nothing".
func AnonymousCells(gob bool) (cells []Cell) {
	c := &Counter{}
	st := StructType("Object")
	for _, f := range Fields(st) {
		if f.Kind == KID || f.Kind == KType {
			continue
		}
		shapes := ShapesFor(f, c, gob)
		if f.Kind == KItems {
			shapes = shapes[1:] // not the empty list: an object whose only property is an empty list says nothing
		}
		if f.Kind == KNLV {
			shapes = shapes[2:] // nor the text properties that say nothing
		}
		if f.Kind == KItem {
			var keep []Shaped
			for _, sh := range shapes {
				if sh.Name != "empty-list" {
					keep = append(keep, sh)
				}
			}
			shapes = keep
		}
		for si, sh := range shapes {
			if si >= 3 {
				break
			}
			for _, pos := range []string{"Attachment", "Tag"} {
				inner := reflect.New(st)
				inner.Elem().Field(f.Index).Set(sh.V)
				top := &ap.Object{ID: c.ID("top"), Type: ap.NoteType}
				if pos == "Attachment" {
					top.Attachment = inner.Interface().(ap.Item)
				} else {
					top.Tag = ap.ItemCollection{c.ID("first"), inner.Interface().(ap.Item)}
				}
				cells = append(cells, Cell{"anonymous-in-" + pos + " Object." + f.Name + " " + sh.Name, st, f, sh.Name, top})
			}
		}
	}
	return
}
