package vocab

import (
	"fmt"
	"reflect"
	"strings"
	"time"

	ap "github.com/go-ap/activitypub"
	"pgregory.net/rapid"
)

// Opts steers the generator of well-formed vocabulary values.
type Opts struct {
	MaxDepth   int  // nesting depth of embedded items (0 = only IRIs inside)
	Gob        bool // nanosecond instants (JSON: whole seconds)
	ValueForms bool // occasionally embed struct values instead of pointers
	NoLinks    bool // never generate Link values
	NoIDless   bool // embedded objects always carry an id
	NoLists    bool // Item positions never hold lists
	MaxList    int  // maximum list length (default 4)
	NoNLMaps   bool // natural-language values have at most one entry
	// Text generates natural-language text; nil = benign text.
	Text func(t *rapid.T) string
	// Str generates the content of other free string positions (units, key material); nil = benign.
	Str func(t *rapid.T) string
	// Density: probability (percent) that a field is set is drawn per value from this list.
	Density []int
	// OnlyTypes restricts embedded struct types (Go names); nil = all.
	OnlyTypes []string
	// MaxNodes bounds the number of embedded struct values of one case (default 24): many small cases beat few large ones.
	MaxNodes int
}

// Gen generates values for one case; ids are unique within the case.
type Gen struct {
	T     *rapid.T
	O     Opts
	n     int
	nodes int
	objs  []ap.IRI // ids of the embedded objects generated so far (see Item: an item may be mentioned twice)
}

func NewGen(t *rapid.T, o Opts) *Gen {
	if o.MaxList == 0 {
		o.MaxList = 4
	}
	if o.MaxNodes == 0 {
		o.MaxNodes = 24
	}
	if o.Density == nil {
		o.Density = []int{4, 4, 10, 10, 25, 50, 100}
	}
	return &Gen{T: t, O: o}
}

var (
	idHosts = []string{"example.com", "social.example.org", "example.com:8443", "fedi.test"}
	idKinds = map[string]string{"Object": "objects", "Actor": "actors", "Activity": "activities", "IntransitiveActivity": "activities", "Question": "questions",
		"Collection": "collections", "CollectionPage": "pages", "OrderedCollection": "ordered", "OrderedCollectionPage": "opages", "Place": "places", "Profile": "profiles",
		"Relationship": "relationships", "Tombstone": "tombstones", "Link": "links"}
)

// ID returns a fresh absolute IRI; no two ids of one case are equivalent.
func (g *Gen) ID(kind string) ap.IRI {
	g.n++
	host := idHosts[rapid.IntRange(0, len(idHosts)-1).Draw(g.T, "host")]
	scheme := "https"
	if rapid.IntRange(0, 5).Draw(g.T, "scheme") == 0 {
		scheme = "http"
	}
	s := fmt.Sprintf("%s://%s/%s/%d", scheme, host, kind, g.n)
	if rapid.IntRange(0, 7).Draw(g.T, "q") == 0 {
		s += "?page=" + fmt.Sprint(g.n)
	}
	return ap.IRI(s)
}

var benignWords = []string{"hello", "world", "Lorem ipsum", "a note", "Ünïcödé", "日本語", "tag-1", "x", "The quick brown fox.", "émoji 🎉", "<p>html</p>", "a & b", "it's", "semi;colon", "100%"}

func (g *Gen) text() string {
	if g.O.Text != nil {
		return g.O.Text(g.T)
	}
	if rapid.IntRange(0, 11).Draw(g.T, "special-text") == 0 {
		// now and then a text with characters the string writers treat on their own
		return "t " + rapid.SampledFrom([]string{"vt\vx", "bs\bx", "ff\fx", "so\x0ex", "gs\x1dx", "rs\x1ex", "us\x1fx", "del\x7fx", "ls\u2028x", "ps\u2029x", "q\"x", "b\\x", "b\\nx", "tab\tx", "nl\nx", "cr\rx",
			"<a href='x'>&amp;</a>", "é日😀", "\ufffdx", "x\x01\x02\x03"}).Draw(g.T, "special")
	}
	n := rapid.IntRange(1, 3).Draw(g.T, "words")
	var ws []string
	for i := 0; i < n; i++ {
		ws = append(ws, rapid.SampledFrom(benignWords).Draw(g.T, "w"))
	}
	return "t " + strings.Join(ws, " ")
}

func (g *Gen) str() string {
	if g.O.Str != nil {
		return g.O.Str(g.T)
	}
	return rapid.SampledFrom([]string{"km", "miles", "m", "feet", "cm", "inches"}).Draw(g.T, "str")
}

var langTags = []ap.LangRef{"en", "fr", "de", "en-GB", "pt-BR", "ja", "zh-Hans"}

// NLV generates a natural-language value: one untagged, one tagged or 2..4 entries with distinct real tags.
func (g *Gen) NLV() ap.NaturalLanguageValues {
	k := rapid.IntRange(0, 9).Draw(g.T, "nlshape")
	if g.O.Gob && !g.O.NoNLMaps && rapid.IntRange(0, 11).Draw(g.T, "repeated-tag") == 0 {
		// several values under one tag: only the binary form can say that
		tag := rapid.SampledFrom(append([]ap.LangRef{ap.NilLangRef}, langTags...)).Draw(g.T, "tag")
		out := ap.NaturalLanguageValues{{Ref: tag, Value: ap.Content(g.text())}, {Ref: tag, Value: ap.Content(g.text() + " (2)")}}
		if rapid.Bool().Draw(g.T, "third") {
			out = append(out, ap.LangRefValue{Ref: "en-GB", Value: ap.Content(g.text())})
		}
		return out
	}
	switch {
	case k < 5 || (g.O.NoNLMaps && k < 8):
		return ap.NaturalLanguageValues{{Ref: ap.NilLangRef, Value: ap.Content(g.text())}}
	case k < 8 || g.O.NoNLMaps:
		return ap.NaturalLanguageValues{{Ref: rapid.SampledFrom(langTags).Draw(g.T, "tag"), Value: ap.Content(g.text())}}
	}
	n := rapid.IntRange(2, 4).Draw(g.T, "nl")
	off := rapid.IntRange(0, len(langTags)-1).Draw(g.T, "off")
	out := ap.NaturalLanguageValues{}
	for i := 0; i < n; i++ {
		out = append(out, ap.LangRefValue{Ref: langTags[(off+i)%len(langTags)], Value: ap.Content(g.text())})
	}
	if rapid.IntRange(0, 3).Draw(g.T, "untagged-in-map") == 0 {
		// an untagged default value next to tagged translations, at any position
		out[rapid.IntRange(0, n-1).Draw(g.T, "untagged-at")].Ref = ap.NilLangRef
	}
	return out
}

// Time generates an instant: years 1000..9000, any zone offset, whole seconds unless Gob.
func (g *Gen) Time() time.Time {
	sec := rapid.Int64Range(-30610224000, 221845392000).Draw(g.T, "sec") // year 1000 .. 9000
	nsec := int64(0)
	if g.O.Gob && rapid.Bool().Draw(g.T, "nanos") {
		nsec = rapid.Int64Range(1, 999999999).Draw(g.T, "nsec")
	}
	var loc *time.Location
	switch rapid.IntRange(0, 3).Draw(g.T, "zone") {
	case 0:
		loc = time.UTC
	default:
		off := rapid.IntRange(-14*4, 14*4).Draw(g.T, "zoff") * 900
		loc = time.FixedZone("", off)
	}
	return time.Unix(sec, nsec).In(loc)
}

// Duration: whole seconds, |d| < 27 days, both signs, never zero.
func (g *Gen) Duration() time.Duration {
	d := rapid.Int64Range(1, 27*24*3600-1).Draw(g.T, "dur")
	switch rapid.IntRange(0, 5).Draw(g.T, "round") {
	case 0: // whole days: the lexical form has no time section
		d = int64(rapid.IntRange(1, 26).Draw(g.T, "days")) * 86400
	case 1: // whole hours or minutes
		d = int64(rapid.IntRange(1, 600).Draw(g.T, "units")) * int64(rapid.SampledFrom([]int{60, 3600}).Draw(g.T, "unit"))
	}
	if rapid.IntRange(0, 3).Draw(g.T, "neg") == 0 {
		d = -d
	}
	return time.Duration(d) * time.Second
}

func (g *Gen) float() float64 {
	n := rapid.OneOf(rapid.SampledFrom([]int64{64, -64, 128, 1, -1}), rapid.Int64Range(-180*64, 180*64)).Draw(g.T, "f64")
	if n == 0 {
		n = 1
	}
	return float64(n) / 64
}

var embedTypes = []string{"Object", "Object", "Object", "Actor", "Activity", "IntransitiveActivity", "Question", "Collection", "CollectionPage",
	"OrderedCollection", "OrderedCollectionPage", "Place", "Profile", "Relationship", "Tombstone"}

// Item generates the content of an Item position: IRI | embedded object | link | list.
func (g *Gen) Item(depth int) ap.Item {
	k := rapid.IntRange(0, 9).Draw(g.T, "itemshape")
	if depth <= 0 || g.nodes >= g.O.MaxNodes {
		k = 0
	}
	if len(g.objs) > 0 && rapid.IntRange(0, 14).Draw(g.T, "mention-again") == 0 {
		// the same item mentioned at a second position, this time as a bare IRI (the actor of a self-Delete is also its object);
		// never inside a list, whose members are pairwise distinct
		return g.objs[rapid.IntRange(0, len(g.objs)-1).Draw(g.T, "which")]
	}
	switch {
	case k < 4:
		return g.ID("iri")
	case k < 8:
		return g.Single(depth)
	default:
		if g.O.NoLists {
			return g.Single(depth)
		}
		return g.Items(depth)
	}
}

// Single generates an embedded object or link (never an IRI or list).
func (g *Gen) Single(depth int) ap.Item {
	if !g.O.NoLinks && rapid.IntRange(0, 7).Draw(g.T, "link") == 0 {
		return g.Value("Link", depth-1, true)
	}
	types := embedTypes
	if g.O.OnlyTypes != nil {
		types = g.O.OnlyTypes
	}
	tn := rapid.SampledFrom(types).Draw(g.T, "embedtype")
	it := g.Value(tn, depth-1, true)
	if g.O.ValueForms && rapid.IntRange(0, 5).Draw(g.T, "valform") == 0 {
		return reflect.ValueOf(it).Elem().Interface().(ap.Item)
	}
	return it
}

// Member generates one list member: IRI, embedded object with id, link.
func (g *Gen) Member(depth int) ap.Item {
	if depth <= 0 || g.nodes >= g.O.MaxNodes || rapid.IntRange(0, 9).Draw(g.T, "membershape") < 5 {
		return g.ID("iri")
	}
	return g.Single(depth)
}

// Items generates a list of 1..MaxList members with pairwise distinct identities.
func (g *Gen) Items(depth int) ap.ItemCollection {
	n := rapid.IntRange(1, g.O.MaxList).Draw(g.T, "listlen")
	out := make(ap.ItemCollection, 0, n)
	for i := 0; i < n; i++ {
		out = append(out, g.Member(depth))
	}
	return out
}

// Value generates a pointer to a struct of the named Go type with a random subset of fields set.
// embedded=true allows id-less / type-less objects (Object only) as the property's domain says.
func (g *Gen) Value(goType string, depth int, embedded bool) ap.Item {
	st := StructType(goType)
	p := reflect.New(st)
	v := p.Elem()
	g.nodes++
	names := NamesFor(goType)
	typ := rapid.SampledFrom(names).Draw(g.T, "type")
	idless := false
	if embedded && !g.O.NoIDless && (goType == "Object" || goType == "Link") {
		switch rapid.IntRange(0, 11).Draw(g.T, "anon") {
		case 0:
			idless = true
		case 1:
			if goType == "Object" {
				idless, typ = true, ""
			}
		case 2:
			if goType == "Object" {
				typ = ""
			}
		}
	}
	if goType == "Link" && !idless && rapid.Bool().Draw(g.T, "linkid") {
		idless = true // links usually have no id
	}
	if !idless {
		v.FieldByName("ID").SetString(string(g.ID(idKinds[goType])))
		if embedded && goType != "Link" {
			g.objs = append(g.objs, ap.IRI(v.FieldByName("ID").String()))
		}
	}
	v.FieldByName("Type").SetString(string(typ))
	dens := rapid.SampledFrom(g.O.Density).Draw(g.T, "density")
	if embedded && dens > 12 {
		// nested values stay small (size shrinks with depth): many small cases beat few large ones
		dens = 12
	}
	set := 0
	for _, f := range Fields(st) {
		if f.Kind == KID || f.Kind == KType {
			continue
		}
		if rapid.IntRange(0, 99).Draw(g.T, "set") >= dens {
			continue
		}
		g.SetField(v, f, depth)
		set++
	}
	if idless {
		// members of one list must be tellable apart (the statement: pairwise distinct ids); an embedded value without an id is
		// identified by what it says: a link by its (unique) href, an object by a unique name
		if goType == "Link" {
			v.FieldByName("Href").SetString(string(g.ID("href")))
		} else {
			g.n++
			v.FieldByName("Name").Set(reflect.ValueOf(ap.NaturalLanguageValues{{Ref: ap.NilLangRef, Value: ap.Content(fmt.Sprintf("anonymous %d %s", g.n, g.text()))}}))
		}
	}
	_ = set
	return p.Interface().(ap.Item)
}

// SetField assigns a generated value of the right kind to one field.
func (g *Gen) SetField(v reflect.Value, f Field, depth int) {
	fv := v.Field(f.Index)
	switch f.Kind {
	case KNLV:
		fv.Set(reflect.ValueOf(g.NLV()))
	case KItem:
		it := g.Item(depth)
		fv.Set(reflect.ValueOf(&it).Elem())
	case KItems:
		fv.Set(reflect.ValueOf(g.Items(depth)))
	case KTime:
		fv.Set(reflect.ValueOf(g.Time()))
	case KDur:
		fv.SetInt(int64(g.Duration()))
	case KMime:
		fv.SetString(rapid.SampledFrom([]string{"text/html", "text/markdown", "image/png", "application/ld+json", "text/plain; charset=utf-8"}).Draw(g.T, "mime"))
	case KLangRef:
		fv.SetString(string(rapid.SampledFrom(langTags).Draw(g.T, "hreflang")))
	case KIRI:
		fv.SetString(string(g.ID("ref")))
	case KUint:
		fv.SetUint(rapid.OneOf(rapid.Uint64Range(1, 3), rapid.Uint64Range(1, 1<<53)).Draw(g.T, "uint"))
	case KInt:
		n := rapid.OneOf(rapid.Int64Range(-2, 2), rapid.Int64Range(-1<<40, 1<<40)).Draw(g.T, "int")
		if n == 0 {
			n = 7
		}
		fv.SetInt(n)
	case KFloat:
		fv.SetFloat(g.float())
	case KString:
		if fv.Type() == TType {
			fv.SetString(string(rapid.SampledFrom(NamesFor("Object")).Draw(g.T, "formertype")))
		} else {
			fv.SetString(g.str())
		}
	case KBool:
		fv.SetBool(true)
	case KSource:
		s := ap.Source{Content: g.NLV()}
		if rapid.Bool().Draw(g.T, "srcmime") {
			s.MediaType = "text/markdown"
			if rapid.IntRange(0, 3).Draw(g.T, "srcmimeonly") == 0 {
				s.Content = nil // a source that only names its media type
			}
		}
		fv.Set(reflect.ValueOf(s))
	case KPublicKey:
		fv.Set(reflect.ValueOf(ap.PublicKey{ID: g.ID("key"), Owner: g.ID("owner"), PublicKeyPem: "-----BEGIN PUBLIC KEY-----\nMIIB" + g.str() + "\n-----END PUBLIC KEY-----"}))
	case KEndpoints:
		e := &ap.Endpoints{}
		ev := reflect.ValueOf(e).Elem()
		any := false
		for i := 0; i < ev.NumField(); i++ {
			if rapid.Bool().Draw(g.T, "endpoint") {
				var it ap.Item = g.ID("endpoint")
				if rapid.IntRange(0, 3).Draw(g.T, "endpoint-embedded") == 0 {
					// an endpoint may be written out in full instead of being referenced
					it = &ap.OrderedCollection{ID: g.ID("endpoint"), Type: ap.OrderedCollectionType, TotalItems: 2}
				}
				ev.Field(i).Set(reflect.ValueOf(&it).Elem())
				any = true
			}
		}
		if !any {
			e.SharedInbox = g.ID("endpoint")
		}
		fv.Set(reflect.ValueOf(e))
	}
}

// Walk visits every struct node of a value (pre-order) with its depth.
func Walk(it ap.Item, depth int, fn func(path string, depth int, node reflect.Value)) {
	walk(it, "", depth, fn)
}

func walk(it ap.Item, path string, depth int, fn func(string, int, reflect.Value)) {
	if IsEmptyItem(it) {
		return
	}
	switch x := it.(type) {
	case ap.IRI, ap.IRIs:
		return
	case ap.ItemCollection:
		for i, m := range x {
			walk(m, fmt.Sprintf("%s[%d]", path, i), depth, fn)
		}
		return
	}
	sv, ok := StructOf(it)
	if !ok {
		return
	}
	fn(path, depth, sv)
	for _, f := range Fields(sv.Type()) {
		fv := sv.Field(f.Index)
		switch f.Kind {
		case KItem:
			if !fv.IsNil() {
				walk(fv.Interface().(ap.Item), path+"."+f.Name, depth+1, fn)
			}
		case KItems:
			walk(fv.Interface().(ap.ItemCollection), path+"."+f.Name, depth+1, fn)
		case KEndpoints:
			// endpoints hold IRIs only
		}
	}
}

// Features summarises a value for the evidence labels: Go type, depth, field kinds used, notable shapes.
type Features struct {
	GoType   string
	Depth    int
	Nodes    int
	SetProps int // properties set on the root besides id and type
	Kinds    map[Kind]bool
	Flags    map[string]bool // link, idless, list, list1, nlN, nl1tagged, neg, nanos, valueform
}

func FeaturesOf(it ap.Item) Features {
	ft := Features{GoType: GoTypeName(it), Kinds: map[Kind]bool{}, Flags: map[string]bool{}}
	Walk(it, 0, func(path string, depth int, node reflect.Value) {
		ft.Nodes++
		if depth > ft.Depth {
			ft.Depth = depth
		}
		if node.Type().Name() == "Link" {
			ft.Flags["link"] = true
		}
		if path != "" && node.FieldByName("ID").Len() == 0 {
			ft.Flags["idless"] = true
		}
		for _, f := range Fields(node.Type()) {
			fv := node.Field(f.Index)
			if f.Kind == KID || f.Kind == KType || fv.IsZero() {
				continue
			}
			if path == "" {
				ft.SetProps++
			}
			ft.Kinds[f.Kind] = true
			switch f.Kind {
			case KNLV:
				ft.Flags[ShapeNLV(fv.Interface().(ap.NaturalLanguageValues))] = true
			case KItems:
				if fv.Len() == 1 {
					ft.Flags["list1"] = true
				} else {
					ft.Flags["list"] = true
				}
			case KItem:
				switch x := fv.Interface().(type) {
				case ap.ItemCollection:
					if len(x) == 1 {
						ft.Flags["item-list1"] = true
					} else {
						ft.Flags["item-list"] = true
					}
				case ap.IRI:
				default:
					if reflect.ValueOf(x).Kind() == reflect.Struct {
						ft.Flags["valueform"] = true
					}
				}
			case KFloat:
				if fv.Float() < 0 {
					ft.Flags["neg"] = true
				}
			case KInt, KDur:
				if fv.Int() < 0 {
					ft.Flags["neg"] = true
				}
			case KTime:
				if fv.Interface().(time.Time).Nanosecond() != 0 {
					ft.Flags["nanos"] = true
				}
			}
		}
	})
	return ft
}

// Labels renders features as evidence labels.
func (f Features) Labels(prefix string) []string {
	out := []string{prefix + " type=" + f.GoType, fmt.Sprintf("%s depth=%d", prefix, f.Depth)}
	for k := range f.Kinds {
		out = append(out, prefix+" kind="+string(k))
	}
	for k := range f.Flags {
		out = append(out, prefix+" has="+k)
	}
	return out
}
