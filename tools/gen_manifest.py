#!/usr/bin/env python3
"""Regenerates /verif/MANIFEST.json from the table below (kept in one place so that it stays valid)."""
import json, os
V = os.path.dirname(os.path.dirname(os.path.abspath(__file__)))
CHECKS = {
 "C14": dict(
  technique="bounded-exhaustive grid + rapid property tests against a reference IRI normaliser (differential oracle), reflexivity/symmetry laws on arbitrary strings",
  text="Generated-input search: all ordered pairs of a 5400-IRI grid (thorough; a 150-row slice in quick) and random URL/mutation pairs are compared with an independent normaliser, which implies reflexivity, symmetry and transitivity on everything explored; arbitrary strings are checked for reflexivity and symmetry; IRIs.Contains against exists-Equals. Sampling beyond the grid does not prove absence.",
  note="Trusts net/url (used by both sides) and the reference normaliser written from the property statement; query strings are kept in one letter case as the property's domain says.",
  ref="DESIGN.md section 4, C14"),
}
props = [json.loads(l) for l in open(os.path.join(V, "properties.jsonl"))]
checks, na = [], []
for p in props:
    pid = p["id"]
    c = CHECKS.get(pid)
    if not c:
        na.append({"property_id": pid, "reason": "check not built yet in this revision of /verif (planned, see DESIGN.md section 7); nothing is claimed for it"})
        continue
    checks.append({
        "property_id": pid,
        "quick_cmd": "./check %s quick" % pid,
        "thorough_cmd": "./check %s thorough" % pid,
        "evidence_file": "/verif/evidence/%s.json" % pid,
        "replay_cmd_template": "./check --replay {path}",
        "engine": "harness",
        "level_claimed": {"category": "exploration", "text": c["text"], "design_ref": c["ref"]},
        "level_note": c["note"],
        "technique": c["technique"],
    })
m = {
 "version": 1,
 "setup_cmd": "./setup.sh",
 "hooks": {
  "guard": "verif",
  "enable": "no hooks: the checks use the exported API and reflection only; nothing in /repo is guarded by the tag",
  "baseline_off_cmd": "python3 /verif/tools/baseline.py /repo",
  "source_commits": [],
  "add_only": True,
 },
 "engines": [{"name": "harness", "path": "/verif/harness", "serves_properties": [c["property_id"] for c in checks],
              "kind_free_text": "Go test binary (pgregory.net/rapid v1.3.0 + bounded-exhaustive enumerations + native fuzz targets) built against /repo through a replace directive; driver /verif/check"}],
 "checks": checks,
 "not_applicable": na,
 "notes": "Exit codes of every command: 0 held / 1 violation (VIOLATION line) / 2 inconclusive (harness does not build against the edited tree, timeout). Known findings: /verif/known_findings.json.",
}
json.dump(m, open(os.path.join(V, "MANIFEST.json"), "w"), indent=1)
print("checks:", len(checks), "not_applicable:", len(na))
