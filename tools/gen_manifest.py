#!/usr/bin/env python3
"""Regenerates /verif/MANIFEST.json from the table below (kept in one place so that it stays valid)."""
import json, os
V = os.path.dirname(os.path.dirname(os.path.abspath(__file__)))
CHECKS = {
 "C01": dict(
  technique="bounded-exhaustive single-cell enumeration + rapid random composition; round-trip oracle under the stated JSON normal form (reflection deep diff keyed by cell)",
  text="Generated-input search with a round-trip oracle: every struct type x field x admissible shape is enumerated completely at depth 1 through both entry pairs, every-field-set values per type, and random nested compositions; a reflection-driven deep diff under exactly the normal form the statement grants reports per-cell differences. Exhaustive only for the depth-1 cells; nesting and interactions are sampled.",
  note="Writer and reader check each other: a paired mistake (same wrong term on both sides) is invisible here and is C02/C05's job. Durations are whole seconds below 27 days (xsd dependency), floats n/64.",
  ref="DESIGN.md section 4, C01"),
 "C03": dict(
  technique="bounded-exhaustive single-cell enumeration + rapid random composition; gob round-trip oracle (three entry pairs) under the gob normal form",
  text="Same three layers as C01 through GobEncode/GobDecode (package and per type) and MarshalBinary/UnmarshalBinary, with nanosecond instants in foreign zones, negative numbers and top-level links and lists; the diff grants only unset==empty and pointer==value.",
  note="Round trip only: encoder and decoder are checked against each other; encoding/gob itself is trusted.",
  ref="DESIGN.md section 4, C03"),
 "C07": dict(
  technique="exhaustive enumeration of type name x entry point x hook configuration against a hand-written ground-truth table of the ActivityStreams vocabulary",
  text="The finite domain is enumerated completely (every vocabulary name, generic names, empty and foreign names x registry/JSON top/JSON nested item/JSON nested list/gob top/gob nested x hooks unset/set); oracle is a ground-truth table taken from the specification, plus marker properties that must arrive.",
  note="The ground-truth table (name -> family -> Go type) is hand-written from the AS2 vocabulary; gob cells encode with the library's own encoder (no independent gob writer exists).",
  ref="DESIGN.md section 4, C07"),
 "C09": dict(
  technique="rapid property tests of algebraic laws (reflexivity, nil laws, sensitivity under single-property mutation of a deep copy) + exhaustive nil-pair, single-cell, single-change sensitivity and cross-type layers; per-call watchdog",
  text="ItemsEqual is exercised on every single-cell value, every everything-set value and thousands of random values (links, id-less objects, multi-language text, lists, value forms, IRIs): x==x, nil-likes equal each other and never a real item in either order, a deep copy differing in id/type/one named property is unequal in both orders, no panic, returns within a watchdog.",
  note="Sensitivity is asserted only for the properties the statement names and for identity-bearing replacement values of the same shape.",
  ref="DESIGN.md section 4, C09"),
 "C10": dict(
  technique="bounded-exhaustive enumeration of small addressee lists + rapid random assignments against a reference first-mention scan (model-based oracle)",
  text="All pairs of lists of length <= 3 over a 4-entry alphabet on every pair of to/cc/bto/bcc for Object, Activity and Block, then random assignments over all five properties (+actor), all 13 types, variants of one id, nil entries; the returned list and the four lists after the call are compared with a reference scan written from the statement.",
  note="Equivalence of addressees is decided by the reference IRI normaliser ignoring scheme; audience after the call is asserted only for the Block clause.",
  ref="DESIGN.md section 4, C10"),
 "C11": dict(
  technique="enumeration of type x position x shape x depth + rapid random planting; reference walk oracle on the Go value, on independently parsed MarshalJSON output, and bit-exact snapshot diff for everything else",
  text="Private recipients are planted on and off the walked properties at depth 1..3; after Clean() a reference walk (written from the statement) finds none on the Go value nor in the JSON parsed by encoding/json, and a deep snapshot shows every other byte unchanged (decoys keep theirs).",
  note="Struct values embedded by value are off the walk as the statement says; JSON validity itself is C02's subject.",
  ref="DESIGN.md section 4, C11"),
 "C13": dict(
  technique="model-based testing: bounded-exhaustive histories + rapid random histories against a reference insertion-ordered set",
  text="Every history up to the length bound over a 3-item pool for each of the six containers, then random histories up to 40/100 steps over a 6-item mixed-shape pool; after every step Count, Collection order and Contains of every pool item are compared with a reference ordered set.",
  note="Items of the pool have pairwise non-equivalent ids as the statement requires; Remove goes through ToItemCollection(container) and is not offered for IRIs.",
  ref="DESIGN.md section 4, C13"),
 "C14": dict(
  technique="bounded-exhaustive grid + rapid property tests against a reference IRI normaliser (differential oracle), reflexivity/symmetry laws on arbitrary strings; native go fuzzing over string pairs in the thorough tier",
  text="Generated-input search: all ordered pairs of a 5400-IRI grid (thorough; a 150-row slice in quick) and random URL/mutation pairs are compared with an independent normaliser, which implies reflexivity, symmetry and transitivity on everything explored; arbitrary strings are checked for reflexivity and symmetry; IRIs.Contains against exists-Equals. Sampling beyond the grid does not prove absence.",
  note="Trusts net/url (used by both sides) and the reference normaliser written from the property statement; query strings are kept in one letter case as the property's domain says.",
  ref="DESIGN.md section 4, C14"),
 "C15": dict(
  technique="enumeration of owner IRIs x collection names + rapid random owners; round-trip and reference-normaliser oracles",
  text="~600 structured owner IRIs (ports, nested paths, trailing slashes, percent-escapes, collection-named segments) x 8 names plus random owners: Split(IRIf) and OfActor(IRI) round trips up to the reference normaliser, ValidCollectionIRI both ways, and the collection helper on objects/actors with and without explicit properties.",
  note="Owners ending in a collection name are generated but only the positive laws are asserted on them.",
  ref="DESIGN.md section 4, C15"),
 "C16": dict(
  technique="enumeration of position x shape and of all short lists + rapid random values; reference flattening (model) with bit-exact diff of all other properties, invented-IRI check, idempotence",
  text="Every flattened position x 10 shapes through FlattenProperties and the typed helpers, all lists of length <= 4 over 5 entry kinds in every addressee property and attributedTo, random values with decoys: result equals a deep copy with exactly the embedded non-collection objects that have an id replaced by their id, nothing else changed, no new IRI, flatten twice == once.",
  note="Repeated mentions in lists may or may not be dropped (both accepted); embedded collections are not placed in flattened positions.",
  ref="DESIGN.md section 4, C16"),
 "C17": dict(
  technique="exhaustive triples over an instant lattice + rapid random items; strict-weak-order laws and agreement with a reference comparator, sort oracle",
  text="All 54 872 ordered triples over 36 objects (published x updated lattice incl. zero, equal instants in different zones) + nil + typed nil are checked for irreflexivity, asymmetry, transitivity, transitive incomparability and agreement with the comparator written from the statement; random items of all 13 object-like types in pointer/value form are also sorted and compared with the reference order.",
  note="Links and bare IRIs are outside the domain as the statement says.",
  ref="DESIGN.md section 4, C17"),
 "C18": dict(
  technique="enumeration of type x field x {only-to, only-from, both} and of the refusal matrix + rapid random pairs; field-wise merge-rule oracle with bit-exact snapshots of both arguments",
  text="For Object, Actor and the four collection types every field is merged in the three patterns, the required refusals are enumerated, and random pairs with independent property subsets are merged: after in {before, from}, set-in-to/unset-in-from kept, listed properties taken from `from`, id/type taken, `from` bit-identical, refusals leave `to` bit-identical.",
  note="Pairs for which the statement fixes no outcome (empty-typed `to`, foreign `from`) are generated for never-panics and from-unchanged only.",
  ref="DESIGN.md section 4, C18"),
 "C19": dict(
  technique="model-based testing: exhaustive Set/Append/Add histories and exhaustive equality pairs + rapid random histories against a reference ordered map",
  text="All histories up to length 4 (5 in thorough) over 3 tags x 2 texts and random histories up to 30 steps: Count, First, tag order and Get(tag) after every step equal a reference list of entries; Equals on all ordered pairs of lists without repeated tags (length <= 3) iff same set of pairs.",
  note="Only the observables the statement names are compared (entries behind the first one with the same tag are not observable through Get).",
  ref="DESIGN.md section 4, C19"),
 "C02": dict(
  technique="independent JSON tokenizer (encoding/json token stream) + reflection accounting walk over value and output by jsonld tags; bounded-exhaustive benign cells and hostile position x constant grid + rapid random hostile values; native go fuzzing (position selector + string) in the thorough tier",
  text="Every MarshalJSON method and package MarshalJSON are run on all benign single-cell values, every-field-set values, 36 string positions x 42 hostile constants (quotes, backslashes, control characters, invalid UTF-8, injection payloads) and random values; the output must be one valid JSON value without repeated member names, every set property under its declared term with the prescribed JSON kind (RFC 3339, xsd:duration by an independent parser), every string decoding to exactly the bytes held, and no undeclared or unaccounted member.",
  note="encoding/json is the trusted tokenizer (it does not reject invalid UTF-8: checked separately); for non-UTF-8 byte strings only validity/no-duplicate/no-undeclared-member are asserted.",
  ref="DESIGN.md section 4, C02"),
 "C04": dict(
  technique="exhaustive tiny inputs + hostile document grid + prefix truncation of seeds + child-process nesting cells + rapid structure-aware mutation at 110 decode entry points; panic/watchdog/allocation monitors with a follow-up battery; native go fuzzing in the thorough tier",
  text="All decode entry points (found by reflection and checked against a go/parser census) receive the empty and every 1-byte input, ~100 malformed documents, every prefix of seed documents and gob streams, nesting up to 200 000 levels in a child process, and structure-aware random mutations; none may panic, exceed a 10 s watchdog or a coarse allocation bound, and every value returned is inspected, compared, re-encoded in both codecs and formatted. Thorough adds a coverage-guided campaign.",
  note="Only panics, hangs and allocation blow-ups are violations here (wrong values belong to C01/C03/C05); asymptotic cost is not decided; native fuzzing cannot be seeded - the saved input is the reproducible unit.",
  ref="DESIGN.md section 4, C04"),
 "C05": dict(
  technique="differential testing against an independent document writer (encoding/json scalars + jsonld tags): bounded-exhaustive single-member documents in two renderings + rapid random documents with neutral rendering choices + repository mocks and their structure-preserving mutations; fixpoint oracle",
  text="The model of a document is the value it must decode to; an independent writer renders it (member order, v vs [v], plain string vs language map, zone offsets are random neutral choices); Diff(model, decode(doc)) under the JSON normal form must be empty, then decode/encode/decode/encode must be a fixpoint with stable bytes. Mocks: every declared member is accounted for in the decoded value; v<->[v] mutations decode identically.",
  note="The writer shares no code with the library's encoder, so paired encoder/decoder mistakes are visible here.",
  ref="DESIGN.md section 4, C05"),
 "C06": dict(
  technique="bounded-exhaustive constants x properties x forms x codecs + rapid random texts; byte-exact round-trip oracle on the text and on the set of (tag, text) pairs, for the property of an object and for the language list on its own; native go fuzzing in the thorough tier",
  text="~95 troublesome valid UTF-8 texts and random strings (1..200 bytes, escape-biased alphabet) are stored in name/summary/content/preferredUsername/source.content, as single untagged/tagged values and as 2..4 language maps, and taken through 5 encode/decode entry pairs (2 JSON, 3 gob/binary); the bytes must come back identical and map tags must be preserved.",
  note="Texts are non-empty valid UTF-8 as the statement says; in JSON a lone tagged value may return untagged (documented normal form).",
  ref="DESIGN.md section 4, C06"),
 "C08": dict(
  technique="exhaustive helper x source type x pointer/value matrix in a child process built with -d=checkptr; structural (reflect offset/size) containment oracle, read-faithfulness and write-through oracles on fully populated values; go/parser census of unsafe conversion sites for domain completeness",
  text="Every To*/On* helper (and generic To[T]) is applied to every source struct type in pointer and value form on populated values with a distinct value in every field: a returned view must lie inside the source (offsets, sizes), read every shared field equal (items<->orderedItems), write through to a pointer source; the runtime pointer checker aborts are attributed to their cell; refusal by error is always accepted. All 44 unsafe.Pointer conversion sites found by the census are exercised.",
  note="The static part of the statement (all conversion sites) is covered dynamically: a site the matrix cannot reach would be listed UNCOVERED, not judged.",
  ref="DESIGN.md section 4, C08"),
 "C12": dict(
  technique="rapid property test with bit-exact deep snapshots (incl. slice spare capacity) for read-only operations + concurrent battery under the Go race detector in child processes (halt_on_error), results compared with sequential ones",
  text="15 groups of read-only operations run on random values whose lists carry sentinel-filled spare capacity: the snapshot must be bit-identical after each operation and results stable; then 8 goroutines run the battery on a shared cold value while 4 decode unrelated inputs in a -race build: any DATA RACE report, diverging result or state change is a violation.",
  note="Schedules are not enumerated: the race detector reports unsynchronised conflicting accesses on the executions it observes; gob results are compared by what they decode to (Go randomises map order in gob output).",
  ref="DESIGN.md section 4, C12"),
 "C20": dict(
  technique="exhaustive nil kind x helper x position matrix, each cell in a child process so that a fatal nil dereference is attributed; validity-predicate oracle (neutral result or error, callbacks receive nil)",
  text="The untyped nil and nil pointers to all 14 struct types are passed to every exported helper taking an Item (60+ helpers) at top level, as a list member and as a property of a valid activity: IsNil true, NotEmpty false, equal to nil, unequal to a real object, no panic or hang, and a callback - if invoked - receives a nil pointer.",
  note="The helper table is hand-written from the exported API (it is the enumeration of the finite domain).",
  ref="DESIGN.md section 4, C20"),
}
props = [json.loads(l) for l in open(os.path.join(V, "properties.jsonl"))]
checks, na = [], []
for p in props:
    pid = p["id"]
    c = CHECKS.get(pid)
    if not c:
        na.append({"property_id": pid, "reason": "check not built yet in this revision of /verif (planned, see DESIGN.md section 7); nothing is claimed for it"})
        continue
    checks.append({
        "property_id": pid,
        "quick_cmd": "./check %s quick" % pid,
        "thorough_cmd": "./check %s thorough" % pid,
        "evidence_file": "/verif/evidence/%s.json" % pid,
        "replay_cmd_template": "./check --replay {path}",
        "engine": "harness",
        "level_claimed": {"category": "exploration", "text": c["text"], "design_ref": c["ref"]},
        "level_note": c["note"],
        "technique": c["technique"],
    })
m = {
 "version": 1,
 "setup_cmd": "./setup.sh",
 "hooks": {
  "guard": "verif",
  "enable": "no hooks: the checks use the exported API and reflection only; nothing in /repo is guarded by the tag",
  "baseline_off_cmd": "python3 /verif/tools/baseline.py /repo",
  "source_commits": [],
  "add_only": True,
 },
 "engines": [{"name": "harness", "path": "/verif/harness", "serves_properties": [c["property_id"] for c in checks],
              "kind_free_text": "Go test binary (pgregory.net/rapid v1.3.0 + bounded-exhaustive enumerations + native fuzz targets) built against /repo through a replace directive; driver /verif/check"}],
 "checks": checks,
 "not_applicable": na,
 "notes": "Exit codes of every command: 0 held / 1 violation (VIOLATION line) / 2 inconclusive (harness does not build against the edited tree, timeout). Known findings: /verif/known_findings.json.",
}
json.dump(m, open(os.path.join(V, "MANIFEST.json"), "w"), indent=1)
print("checks:", len(checks), "not_applicable:", len(na))
