#!/usr/bin/env python3
"""Source of /verif/known_findings.json: the table below is edited by hand (never at check run time) and rendered to JSON.
fixed(...) entries record a defect repaired by a fix: commit in /repo (they mask nothing);
known(...) entries record a genuine defect left unrepaired (the check prints KNOWN-FINDING and masks exactly that key)."""
import json, os
F = []
def fixed(prop, key, commit, what, repro=""):
    F.append({"property": prop, "key": key, "status": "fixed", "commit": commit,
              "what": "fixed: property=%s %s %s" % (prop, commit, what), "repro": repro})
def known(prop, key, what, repro=""):
    F.append({"property": prop, "key": key, "status": "known", "what": what, "repro": repro})

# ---- C14
fixed("C14", "iri grid diff=path want=eq", "62e05a7", "IRI without a path was not equal to the same IRI with path /. or // (while both equal the one with path /): equality not transitive",
      'IRI("http://example.com").Equals("http://example.com/.", true)')
fixed("C14", "iri grid diff=query-repeated-key want=ne", "ed88240", "values of a repeated query key compared in one direction only: ?x=1&x=1 equal to ?x=1&x=2 but not the converse",
      'IRI("http://example.com/?x=1&x=1").Equals("http://example.com/?x=1&x=2", false)')
# ---- C01 (JSON round trip)
fixed("C01", "json-rt Profile.*", "6cc24c1", "Profile.MarshalJSON never wrote the object core: a Profile encoded to its describes member only, or to nothing (decode error)", "cell: pkg Profile.Name nl1")
fixed("C01", "json-rt Place.Latitude neg", "bec718e", "Place accuracy/altitude/latitude/longitude/radius written only when > 0: negative coordinates dropped", "cell: pkg Place.Latitude neg")
fixed("C01", "json-rt Place.Units str", "7809829", "Place units written as a second radius member and never read back", "cell: pkg Place.Units str")
fixed("C01", "json-rt Link.Preview *", "da5d200", "Link preview written as a second rel member: preview lost, rel overwritten", "cell: pkg Link.Preview iri")
fixed("C01", "json-rt OrderedCollectionPage.StartIndex uint", "231fc51", "startIndex read but never written", "cell: pkg OrderedCollectionPage.StartIndex uint")
fixed("C01", "json-rt Question.Closed true", "25e36f1", "closed written as the quoted string \"true\" and read back as false", "cell: pkg Question.Closed true")
fixed("C01", "json-rt *.Duration *", "9b64745", "duration written as xsd:duration but parsed with time.ParseDuration: always read back as 0", "cell: pkg Object.Duration pos")
fixed("C01", "json-rt *.Name nlN", "25da2ea", "multi-language values written under nameMap/summaryMap/contentMap but only the plain term was read", "cell: pkg Object.Name nlN")
fixed("C01", "json-rt Source.Content nl1", "a27ea96", "a source's multi-language content written as contentMap was never read", "cell: pkg Object.Source source-nlN")
fixed("C01", "json-rt *.Audience list1:obj", "32d5ab2", "a list property holding a single embedded object (audience is written compacted) was dropped by JSONGetItems' object branch", "cell: pkg Object.Audience list1:obj")
fixed("C01", "json-rt PublicKey.ID str", "33268bc", "PublicKey with only an id encoded to nothing (inverted not-empty flag)", "cell: pkg Actor.PublicKey key-idonly")
fixed("C01", "json-rt *.Content nlN", "c2da78d", "Content/LangRef.UnmarshalText emptied unquoted text longer than two bytes: every entry of a language map was read as empty", "cell: pkg Object.Content nlN")
fixed("C01", "json-rt *.Bto list:link+obj", "d6489cd", "collection Equals returned true when the other item could not be converted (OrderedCollectionPage vs OrderedCollection with different ids), so list de-duplication while decoding dropped a member", "random layer, seed 1")
fixed("C01", "json-rt *.Attachment obj:Object-idless", "cfd5e10", "an embedded object without id and type whose only property is a negative duration was judged empty by the decoder and dropped (Duration > 0 row)", "cells: pkg anonymous-in-Attachment Object.Duration neg")
# ---- C03 (gob round trip)
fixed("C03", "gob-rt *.Origin *", "93c7084", "origin never gob encoded", "cell: pkg Activity.Origin iri")
fixed("C03", "gob-rt Place.Longitude *", "ae8d2b0", "longitude never gob decoded", "cell: pkg Place.Longitude pos")
fixed("C03", "gob-rt Profile.Describes *", "2de3a03", "describes stored under \"describes\" but looked up as \"Describes\"", "cell: pkg Profile.Describes iri")
fixed("C03", "gob-rt *.Duration neg", "b1a4cdd", "only durations > 0 gob encoded", "cell: pkg Object.Duration neg")
fixed("C03", "gob-rt Place.Latitude neg", "e1739e8", "only coordinates > 0 gob encoded", "cell: pkg Place.Latitude neg")
fixed("C03", "gob-rt OrderedCollectionPage.StartIndex uint", "8f9c4bc", "startIndex unknown to both gob tables", "cell: pkg OrderedCollectionPage.StartIndex uint")
fixed("C03", "gob-rt Link.Preview *", "dc59bd3", "Link preview unknown to both gob tables", "cell: typed Link.Preview iri")
fixed("C03", "gob-rt *.* link", "54892bb", "gobEncodeItem wrote nothing for a Link (top level, property value or list member): decoded as an empty IRI list", "cell: pkg Object.Tag list1:link")
fixed("C03", "gob-rt Endpoints.* iri", "b5ade32", "Endpoints.GobEncode/GobDecode were empty stubs", "cell: pkg Actor.Endpoints endpoints-shared")
fixed("C03", "gob-rt *.* type:Object", "be18c01", "an embedded object with neither id nor type was gob decoded as an IRI made of the raw gob bytes", "cell: pkg Object.Tag list3:link")

# ---- C19
fixed("C19", "nlv equals len>=2 want=eq", "f0ada0b", "NaturalLanguageValues.Equals returned false for any list with two entries, itself included (nested loop)", "equality layer: [en:one fr:two] == itself")
# ---- C09
fixed("C09", "eq refl link", "fad7c93", "ItemsEqual had no branch for Links: a Link, and every object holding one, was not equal to itself", "cell: Object.Attachment link")
fixed("C09", "eq refl iris", "275bbc2", "an IRIs list was never equal to anything, itself included (ItemCollection.Equals refused the IRI-list type)", "random layer: IRIs{a,b}")
fixed("C09", "eq refl list-with-idless-member", "0bd8bfb", "ItemCollection.Equals looked members up by IRI: a list with an id-less member was not equal to itself", "cell: Object.Tag list3:link")
fixed("C09", "eq sens id-*", "d6489cd", "collection Equals ignored a failed conversion of the other item: collections of different kinds with different ids compared equal", "OrderedCollectionPage{id A} vs OrderedCollection{id B}")
fixed("C01", "json-rt Source.MediaType str", "886738d", "a source's media type lost a quote at its end when read from JSON (GetAPSource handed the decoded string to MimeType.UnmarshalJSON, which trims quotes): text/plain; charset=\"utf-8\" came back without its closing quote; noticed by a sub-agent while it was seeding round 15, then shown by the new quoted-param shapes", "cells: Object.Source source-mime-quoted-param")
fixed("C08", "view *IntransitiveActivity Activity * layout", "4c77eca", "IntransitiveActivity.Actor was declared with a distinct interface type (CanReceiveActivities) at the place of Activity.Actor (Item): an actor written through the in-place view carried the other type's method table, and activity.Actor.(IRI) / == on it failed afterwards; first noticed by a sub-agent while it was seeding round 16 (after FlattenActivityProperties the actor did not assert as an IRI), shown once the layout oracle required identical interface types", "cells: OnIntransitiveActivity Activity ptr")
fixed("C04", "total hang UnmarshalJSON decode chain-twins:*", "ab08558", "CollectionPage.Equals and OrderedCollectionPage.Equals compared current, first and last through the embedded collection and then again directly: two equal chains of pages nested n deep cost 2^n comparisons, so decoding {\"type\":\"Note\",\"tag\":[P,P]} with P a 28-deep chain of pages through first/last/current did not return within the 10 s watchdog")
# ---- C10
fixed("C10", "recipients Block panic@removeFromCollection nil-entry", "1a20acb", "Recipients() of a Block whose lists hold a nil entry panicked", "pairs layer: Activity[Block] To=[nil]")
fixed("C10", "recipients Block panic@(*Actor).GetID", "2fb4e33", "Recipients() of a Block whose lists hold a nil *Actor (or whose blocked object is a nil pointer) panicked: the entries were tested with == nil", "near layer: Activity[Block] To=[nilptr#3]")
fixed("C10", "recipients * list-after * shared-slice", "834740e", "with one slice assigned to two of the value's lists (To and CC from the same variable), removing the repeated mentions from the later list shifted entries inside the shared backing array and overwrote the first mentions the earlier list keeps", "shared layer: Place To=CC=[iri#0 iri#0 nil]")
# ---- C18
fixed("C18", "copy *.Duration only-to", "89acbac", "inverted guard: duration of `to` zeroed when `from` has none, and never taken when set", "cell: Object.Duration only-to pos")
fixed("C18", "copy *.Source only-to", "61c2ed3", "a source with a media type set only in `to` was replaced by from's empty source", "cell: Object.Source only-to source-full")
fixed("C18", "copy panic@(*Collection).GetLink *", "a71688b", "typed-nil `to`/`from` passed the nil check and panicked in GetLink", "random layer: mode typed-nil-to")
# ---- C16
fixed("C16", "flatten * Replies obj:Object-idless", "7e68739", "Flatten replaced id-less objects by IRI(\"\") and links by their id in replies/likes/shares/attributedTo", "positions layer: FlattenProperties Object[Note].Replies idless")
fixed("C16", "flatten * To list:*", "4de4f8a", "FlattenItemCollection wrote the de-duplicated IRIs back by position: a nil or id-less member shifted every later IRI one slot", "lists layer: FlattenProperties Object.To [1 4 2]")
fixed("C16", "flatten * To list:idless", "8dab7c3", "recipient de-duplication recorded id-less entries as the empty IRI: a second id-less member was dropped and an empty addressee invented", "lists layer: FlattenProperties Object.To [3 3]")
# ---- C15
fixed("C15", "typer item explicit-* actor *", "217dcb6", "CollectionPath.Of/IRI ignored an actor's explicit inbox/outbox/liked/following/followers (object branch overwrote the actor branch)", "items layer: actor ... inbox explicit=iri")

# ---- C08
fixed("C08", "view *Tombstone Object * layout", "da5d5ae", "ToTombstone reinterpreted an *Object as the larger *Tombstone: formerType/deleted lay outside the value (checkptr abort)", "matrix: ToTombstone Object ptr")
fixed("C08", "view *Relationship Object * layout", "a1233db", "ToRelationship reinterpreted an *Object as the larger *Relationship", "matrix: ToRelationship Object ptr")
known("C08", "view *OrderedCollectionPage CollectionPage * layout", "ToOrderedCollectionPage/OnOrderedCollectionPage reinterpret a CollectionPage (744 bytes) as an OrderedCollectionPage (752 bytes): startIndex lies outside the value. "
      "Not repaired: TestToOrderedCollectionPage requires this conversion to succeed, and a copying conversion would not be a view (writes would not reach the original).",
      "matrix cell: ToOrderedCollectionPage CollectionPage ptr")

# ---- C02 / C06 (what the encoders write)
fixed("C02", "json-out * invalid-json chars=*", "f02164d", "ids, IRIs, types, media types, units, hrefLang and key owners were written unescaped: backslash/control characters gave invalid JSON, a quote followed by JSON text injected or overrode members (re-serialised document decoded as a Delete)", "hostile layer: method Object.ID \"\\\",\\\"type\\\":\\\"Delete\"")
fixed("C02", "json-out *.* string-altered chars=backslash", "24a516a", "NaturalLanguageValues.MarshalJSON passed single values through unescape(): text with backslash sequences was written as a different text", "hostile layer: method Name.text \"a\\\\\\\"b\"")
fixed("C02", "json-out Object.Source missing *", "123191c", "Source.MarshalJSON lost the media type when the content had nothing to write (flag overwritten)", "random layer: Source{MediaType, Content:[-:\"\"]}")
fixed("C02", "json-out Object invalid-json chars=benign", "1a4b390", "a language map holding an untagged (nil language tag) value was written without a member name: invalid JSON", "hostile layer: method Name.map-with-niltag")
fixed("C06", "text json * * escape-lookalike *", "0326d7f", "decoded natural-language text was parsed as JSON and unescaped a second time: C:\\new came back with a line feed, 42/true/null/[1,2]/\"q\" came back empty or altered, language-map entries lost surrounding quotes", "constants layer: Object.Name json-pkg \"C:\\\\new\"")
fixed("C06", "text json value-* * escape-lookalike *", "96f7839", "NaturalLanguageValues.UnmarshalJSON and LangRefValue.UnmarshalJSON ran unescape() over the string the JSON parser had already decoded: a name/summary/content value stored and read back on its own lost or altered backslash sequences (two backslashes came back as one, C:\\new with a line feed); found after the automated mutation analysis showed the stand-alone pair unobserved", "value-pairs layer: value form=0 json-methods \"\\\\\\\\\"")
fixed("C06", "text json Source.Content * * *", "1020738", "a source's decoded content was parsed as a JSON document again", "constants layer: Object.Source.Content json-pkg \"42\"")
known("C02", "json-out * dup-member *Map.* chars=*", "a natural-language list holding two values under one language tag (possible through Append/Add, and what the binary codec round-trips) is written as a language map that repeats the tag as member name: {\"nameMap\":{\"en\":\"a\",\"en\":\"b\"}}. "
      "Not repaired: JSON language maps hold one value per tag; whether to write an array per tag (the decoder would have to learn it) or to keep the first value only is a design decision for the maintainers.",
      "hostile layer: method Name.map-repeated-tag")
known("C02", "json-out LangRefValue invalid-json chars=*", "LangRefValue.MarshalJSON of a tagged value returns the fragment \"en\":\"text\" (a member of a language map), which is not a JSON value by itself (json.Marshal of a LangRefValue fails). "
      "Not repaired: TestLangRefValue_MarshalJSON pins exactly this output, and NaturalLanguageValues.MarshalJSON composes maps out of these fragments.",
      "hostile layer: method LangRefValue-tagged")
# ---- C20
fixed("C20", "nil Flatten * list panic@*", "972bf1d", "recipient de-duplication only skipped the untyped nil: a nil pointer in an addressee list made Recipients/Flatten/FlattenProperties panic", "cells: Flatten (*Actor)(nil) list")
fixed("C20", "nil GobEncode * * panic@*", "8caaaf9", "GobEncode of nil, of a nil pointer, or of a value holding one panicked in GetType", "cells: GobEncode (*Object)(nil) top")
fixed("C20", "nil IRIs.* * top panic@*", "be7b19d", "IRIs.Contains/Append called GetLink on a nil item", "cells: IRIs.Contains nil top")
fixed("C20", "nil ItemsEqual(x,x) * * panic@*", "d2036a8", "ItemCollection.Equals called GetLink on nil members: comparing a value with a nil entry in a list panicked", "cells: ItemsEqual(x,x) nil list")
fixed("C20", "nil MarshalJSON * * panic@*", "1686a27", "the JSON writer called MarshalJSON on nil pointers held in properties and lists", "cells: MarshalJSON (*Object)(nil) prop")
fixed("C20", "nil OnCollectionIntf * top panic@*", "92cd929", "OnCollectionIntf only checked the untyped nil", "cells: OnCollectionIntf (*Tombstone)(nil) top")
fixed("C20", "nil *ToItemCollection * top panic@ToItemCollection", "17f659c", "ToItemCollection/OnItemCollection dereferenced nil collection pointers", "cells: OnItemCollection (*Collection)(nil) top")
fixed("C20", "nil ToActivity nil top panic@ToActivity", "0dccdd1", "ToActivity(nil) called reflect.TypeOf(nil).ConvertibleTo", "cells: ToActivity nil top")

# ---- C04
fixed("C20", "nil OnIRIs(list) * list* panic@*", "02e590d", "OnIRIs/ToIRIs on an item list holding a nil item or a nil pointer panicked in ItemCollection.IRIs (GetLink on every member); shown after C20 gained the list positions for the whole On* family", "cells: OnIRIs(list) (*Object)(nil) list")
fixed("C20", "nil ItemsEqual(x,x) * all-props:* panic@*GetLink", "6c8ae29", "ItemsEqual on a value whose url property holds a typed-nil pointer called GetLink on it (Object.Equals tested the url with != nil); shown after C20 gained the all-props positions (the nil item in every item-valued property of every struct type), which a round-4 seeded change made necessary", "cells: ItemsEqual(x,x) (*Object)(nil) all-props:Object")
fixed("C20", "nil CollectionPath.IRI/Of/AddTo * list* panic@CollectionPath.ofObject", "ebef377", "CollectionPath.Of on an item list holding a nil pointer (or an empty IRI) dereferenced the nil *Object that OnObject hands to the callback for such a member; found when C12 planted empty IRIs into lists, then shown by C20 after the list positions were added for the CollectionPath helpers", "cells: CollectionPath.IRI/Of/AddTo (*Object)(nil) list1")
fixed("C20", "nil OnIRIs(list) * list-ptr panic@*", "b4fe60e", "ToIRIs/OnIRIs on a pointer to an item list that holds a nil member called GetLink on the nil member (the row for the list held by value had been repaired in 02e590d)", "cells: OnIRIs(list) (*Actor)(nil) list-ptr; first noticed by a sub-agent while it was seeding round 14")
fixed("C04", "total hang * follow-up nesting:lists", "1bf2f5d", "duplicated rows in the gob encoder encoded tag/shares/inbox twice per level: GobEncode cost doubled with each nesting level (10 s for 20 levels)", "nesting layer: lists depth 100")
fixed("C04", "total panic@(*NaturalLanguageValues).UnmarshalText *", "fdef947", "NaturalLanguageValues.UnmarshalText indexed data[0] on empty input and sliced [1:0] on a lone quote", "tiny layer: (*NaturalLanguageValues).UnmarshalText with empty input")
fixed("C04", "total hang * follow-up nesting:collection", "3fad8c5", "OrderedCollection.Equals compared the ordered items twice per level: ItemsEqual on nested ordered collections was exponential", "nesting layer: collection depth 100")
fixed("C04", "total hang * follow-up *", "64b3878", "ItemsEqual ran Object.Equals and then the specific Equals (which repeats it): exponential in the nesting depth of activities/actors/collections", "nesting layer: collection depth 100")
fixed("C04", "total panic@gobEncodeItem * follow-up", "d26fa67", "an object decoded from {\"type\":\"IRI\",...} made GobEncode panic (it.(IRI) asserted inside the objects-only branch); found through a side remark of a seeding sub-agent, then reproduced by adding the library's internal type names to the hostile documents", "hostile layer: {\"type\":\"IRI\",\"id\":\"https://a.b/c\"} at (*Object).UnmarshalJSON")

out = {"comment": "Committed list of genuine defects of go-ap/activitypub found by the checks (rendered by tools/findings.py; never written at check run time). "
                  "status=known: recorded, not repaired; the check prints KNOWN-FINDING and masks exactly the keyed cell. "
                  "status=fixed: repaired by the named fix: commit in /repo; masks nothing, the violation is reported again if it returns.",
       "findings": F}
json.dump(out, open(os.path.join(os.path.dirname(os.path.dirname(os.path.abspath(__file__))), "known_findings.json"), "w"), indent=1)
print(len(F), "findings")
