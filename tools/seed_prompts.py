#!/usr/bin/env python3
# tools/seed_prompts.py <round n> : writes /tmp/seed<n>/<ID>.prompt.txt for every property - the text handed to a fresh sub-agent
# that is asked for a seeded change (the property text from properties.jsonl, its own scratch worktree, and the list of the
# conditions earlier seeded changes of that property needed, so that it produces a different one).  Nothing else from /verif.
import json, sys, os, glob
n = int(sys.argv[1])
props = [json.loads(l) for l in open('/verif/properties.jsonl') if l.strip()]
metas = {}
for d in sorted(glob.glob('/verif/seeded/*/meta.json')):
    m = json.load(open(d))
    metas.setdefault(m['property'], []).append((os.path.basename(os.path.dirname(d)), m['needs_to_manifest']))
tmpl = open('/verif/tools/seed_prompt.tmpl').read()
os.makedirs('/tmp/seed%d' % n, exist_ok=True)
for p in props:
    pid = p['id']
    earlier = '\n'.join('  - "%s", which needs: %s' % (nm, needs) for nm, needs in metas.get(pid, []))
    files = ', '.join(p['anchors']['files'])
    txt = tmpl.replace('@DIR@', '/tmp/seed%d/%s' % (n, pid)).replace('@ID@', pid).replace('@TITLE@', p.get('title', '')) \
        .replace('@STATEMENT@', p.get('statement', '')).replace('@QUANT@', p['quantifier']['text']) \
        .replace('@FILES@', files).replace('@EARLIER@', earlier)
    open('/tmp/seed%d/%s.prompt.txt' % (n, pid), 'w').write(txt)
print('wrote', len(props), 'prompts')
