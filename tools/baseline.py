#!/usr/bin/env python3
"""Run the repository's baseline suite (guard off: no build tags) and compare with /root/.vp/BASELINE.json.
Exit 0 iff every test in stable_pass passes.  Usage: baseline.py [repo_dir]"""
import json, os, subprocess, sys
repo = sys.argv[1] if len(sys.argv) > 1 else "/repo"
base = json.load(open("/root/.vp/BASELINE.json"))
env = dict(os.environ, GOFLAGS="-mod=mod", GOPROXY="off", GOSUMDB="off", GOTOOLCHAIN="local")
p = subprocess.run(["go", "test", "-json", "-vet=off", "-count=1", "-timeout", "25m", "./..."], cwd=repo, env=env,
                   stdout=subprocess.PIPE, stderr=subprocess.STDOUT, text=True)
res = {}
for line in p.stdout.splitlines():
    try:
        e = json.loads(line)
    except Exception:
        continue
    if e.get("Test") and e.get("Action") in ("pass", "fail", "skip"):
        res[e["Package"] + "::" + e["Test"]] = e["Action"]
missing = [t for t in base["stable_pass"] if res.get(t) != "pass"]
print("baseline: %d/%d stable tests pass; %d results in total" % (len(base["stable_pass"]) - len(missing), len(base["stable_pass"]), len(res)))
for t in missing[:40]:
    print("  NOT PASSING:", t, res.get(t))
if not res:
    print(p.stdout[-3000:])
sys.exit(1 if missing else 0)
