#!/opt/veriftools/pyvenv/bin/python
import json, sys, glob, jsonschema
m = json.load(open('/verif/MANIFEST.json'))
jsonschema.validate(m, json.load(open('/root/.vp/MANIFEST.schema.json')))
es = json.load(open('/root/.vp/EVIDENCE.schema.json'))
for c in m['checks']:
    try:
        jsonschema.validate(json.load(open(c['evidence_file'])), es)
    except Exception as e:
        print('EVIDENCE PROBLEM', c['property_id'], str(e)[:200])
print('manifest valid;', len(m['checks']), 'checks')
