#!/usr/bin/env python3
"""Renders the seeded-change tables of DESIGN.md section 8.5 from /verif/seeded/*/meta.json (rounds 2 and 3; the round-1
table is hand-written) and replaces the text between the markers <!-- seeded:begin --> and <!-- seeded:end -->."""
import json, glob, os, re
rows = {}
for d in sorted(glob.glob('/verif/seeded/*')):
    m = json.load(open(d + '/meta.json'))
    r = m.get('round') or 1
    if r < 2:
        continue
    c = m['caught_by']
    missed = c.lower().startswith('initially missed') or c.startswith('MISSED')
    rows.setdefault(r, []).append((m['property'], os.path.basename(d), m['needs_to_manifest'], missed, c))
def clip(s, n):
    s = s.replace('|', '/').replace('\n', ' ')
    return s if len(s) <= n else s[:n - 1] + '…'
out = []
for r in sorted(rows):
    rs = sorted(rows[r])
    caught = sum(1 for x in rs if not x[3])
    out.append(f"  **Round {r}** ({len(rs)} changes: {caught} caught as built, {len(rs) - caught} missed at first and caught after the named addition):\n")
    out.append("  | property | seeded change | needs | outcome |\n  |---|---|---|---|")
    for p, name, needs, missed, c in rs:
        if missed:
            res = '**missed** → ' + clip(re.sub(r'^(initially MISSED|MISSED as first built)\s*', '', c), 330)
        else:
            res = 'caught as built — ' + clip(c, 200)
        out.append("  | %s | `%s` | %s | %s |" % (p, name, clip(needs, 230), res))
    out.append("")
txt = "\n".join(out)
p = '/verif/DESIGN.md'
s = open(p).read()
b, e = '<!-- seeded:begin -->', '<!-- seeded:end -->'
i, j = s.index(b), s.index(e)
s = s[:i + len(b)] + "\n" + txt + "\n" + s[j:]
open(p, 'w').write(s)
print(txt[:400])
