#!/bin/sh
# tools/seeded.sh <property id> <agent worktree dir> <name>
# Confirms a seeded change independently (fresh scratch worktree: patch applies, compiles, baseline suite still passes, the
# demonstration fails with the change and passes without), then runs the property's quick check against /repo with the patch
# applied (undone straight afterwards) and stores everything under /verif/seeded/<name>/.
set -u
ID=$1; SRC=$2; NAME=$3
export GOFLAGS=-mod=mod GOPROXY=off GOSUMDB=off GOTOOLCHAIN=local
OUT=/verif/seeded/$NAME; mkdir -p $OUT
cp $SRC/patch.diff $OUT/patch.diff; cp $SRC/seeded_demo_test.go $OUT/seeded_demo_test.go
W=$(mktemp -d /tmp/seedcheck.XXXXXX); rmdir $W
git -C /repo worktree add -q --detach $W HEAD; cp /repo/go.sum $W/
cp $OUT/seeded_demo_test.go $W/
( cd $W && go test -vet=off -count=1 -run 'TestSeededDemo$' . >/tmp/seed_demo_clean.out 2>&1 ); DEMO_CLEAN=$?
if ! git -C $W apply $OUT/patch.diff; then echo "PATCH DOES NOT APPLY"; git -C /repo worktree remove --force $W; exit 2; fi
( cd $W && go build ./... ) || { echo "DOES NOT COMPILE"; git -C /repo worktree remove --force $W; exit 2; }
( cd $W && go test -vet=off -count=1 -run 'TestSeededDemo$' . >/tmp/seed_demo_patched.out 2>&1 ); DEMO_PATCHED=$?
rm $W/seeded_demo_test.go
python3 /verif/tools/baseline.py $W > /tmp/seed_baseline.out 2>&1; BASE=$?
git -C /repo worktree remove --force $W; git -C /repo worktree prune
echo "demo on clean tree: exit $DEMO_CLEAN (want 0); demo with change: exit $DEMO_PATCHED (want non-zero); baseline with change: exit $BASE (want 0): $(head -1 /tmp/seed_baseline.out)"
# now the check, against /repo itself with the patch applied
git -C /repo apply $OUT/patch.diff || exit 2
cd /verif && VERIF_SEEDED_RUN=1 ./check $ID quick > /tmp/seed_check.out 2>&1; RC=$?
git -C /repo checkout -- . 
git -C /repo status --short | grep -v go.sum
echo "check $ID quick on the seeded tree: exit $RC"; grep -m2 '^VIOLATION-KEY' /tmp/seed_check.out | cut -c1-300
echo "{\"demo_clean_exit\": $DEMO_CLEAN, \"demo_patched_exit\": $DEMO_PATCHED, \"baseline_exit\": $BASE, \"check_exit\": $RC}" > $OUT/result.json
