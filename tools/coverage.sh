#!/bin/sh
# tools/coverage.sh [outdir]  — statement coverage of /repo's package reached by each check's quick tier (including the
# child processes of C04/C08/C12).  Writes <outdir>/<ID>.out (one merged Go cover profile per check), <outdir>/all.out and
# prints the merged percentage.  Diagnostic only: no check depends on it.  The outdir lives outside /verif and /repo.
set -u
OUT=${1:-/tmp/verif-coverage}
export GOFLAGS=-mod=mod GOPROXY=off GOSUMDB=off GOTOOLCHAIN=local
rm -rf "$OUT"; mkdir -p "$OUT"
cd /verif/harness || exit 2
go test -c -vet=off -cover -covermode=set -coverpkg=github.com/go-ap/activitypub -o "$OUT/props.test" ./props || exit 2
go test -c -vet=off -cover -covermode=set -coverpkg=github.com/go-ap/activitypub -gcflags=all=-d=checkptr -o "$OUT/props.checkptr.test" ./props || exit 2
run_one() {
  id=$1; bin=$2
  d="$OUT/w$id"; mkdir -p "$d/cov"
  ( cd "$d" && VERIF_TIER=quick VERIF_SEED=1 VERIF_SHARD=0 VERIF_SHARDS=1 VERIF_PART="$d/part.json" VERIF_BIN="$bin" \
    VERIF_REPLAYS_DIR="$d/replays" VERIF_COVERDIR="$d/cov" timeout 1500 "$bin" -test.run "^TestC$id\$" -test.timeout=0 \
    -test.coverprofile="$d/cov/main.out" > log 2>&1 )
  python3 /verif/tools/covmerge.py "$OUT/C$id.out" "$d"/cov/*.out
}
for id in 01 02 03 04 05 06 07 09 10 11 12 13 14 15 16 17 18 19 20; do run_one $id "$OUT/props.test" & done
run_one 08 "$OUT/props.checkptr.test" &
wait
python3 /verif/tools/covmerge.py "$OUT/all.out" "$OUT"/C*.out
go tool cover -func="$OUT/all.out" | tail -1
rm -f "$OUT"/props.test "$OUT"/props.checkptr.test
