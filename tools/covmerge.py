#!/usr/bin/env python3
"""covmerge.py <out> <profile>...  — union of Go cover profiles (mode set)."""
import sys
blocks = {}
for f in sys.argv[2:]:
    try:
        lines = open(f).read().splitlines()
    except OSError:
        continue
    for line in lines:
        if line.startswith('mode:') or not line.strip():
            continue
        k, n, c = line.rsplit(' ', 2)
        old = blocks.get(k, (int(n), 0))
        blocks[k] = (int(n), 1 if (old[1] or int(c)) else 0)
with open(sys.argv[1], 'w') as o:
    o.write('mode: set\n')
    for k in sorted(blocks):
        o.write('%s %d %d\n' % (k, blocks[k][0], blocks[k][1]))
