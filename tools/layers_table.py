#!/usr/bin/env python3
"""Renders DESIGN.md section 8.6 (layers per check, as measured by the committed quick-tier evidence) between the markers
<!-- layers:begin --> and <!-- layers:end -->."""
import json, glob, collections
rows = []
for f in sorted(glob.glob('/verif/evidence/C*.json')):
    e = json.load(open(f))
    c = e['coverage']
    ex = c.get('exhaustive_layers') or {}
    desc = []
    for k, v in sorted((c.get('labels') or {}).items()):
        if k.startswith('@cases '):
            layer = k[len('@cases '):]
            desc.append('%s%s %d' % (layer, ' (exhaustive)' if ex.get(layer) else '', v))
    rows.append((e['property_id'], e['tier'], c['evaluations'], c['distinct_nontrivial'], '; '.join(desc)))
out = ["| check | evaluations (quick, seed 1) | distinct non-trivial | layers: cases per layer |", "|---|---|---|---|"]
for r in rows:
    out.append("| %s | %d | %d | %s |" % (r[0], r[2], r[3], r[4]))
txt = "\n".join(out)
p = '/verif/DESIGN.md'
s = open(p).read()
b, e = '<!-- layers:begin -->', '<!-- layers:end -->'
if b in s:
    i, j = s.index(b), s.index(e)
    s = s[:i + len(b)] + "\n" + txt + "\n" + s[j:]
    open(p, 'w').write(s)
print(txt)
