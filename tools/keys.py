#!/usr/bin/env python3
"""Summarise the violation keys of an evidence file, grouped with the Go type wildcarded."""
import json, sys, re, collections
e = json.load(open('/verif/evidence/%s.json' % sys.argv[1]))
g = collections.Counter()
for k in e.get('violation_keys', []):
    g[re.sub(r' (\w+)\.(\w+|\*) ', r' *.\2 ', k)] += 1
for k, n in sorted(g.items()):
    print("%4d  %s" % (n, k))
print(len(e.get('violation_keys', [])), 'keys;', 'evaluations', e['coverage']['evaluations'], 'nontrivial', e['coverage']['distinct_nontrivial'], 'wall', e['wall_s'])
