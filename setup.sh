#!/bin/sh
# Offline setup after a fresh restore: make sure the harness module resolves and pre-build the test binaries once
# (warms the Go build cache; every check rebuilds from /repo's working tree anyway).
set -e
cd "$(dirname "$0")"
export GOFLAGS=-mod=mod GOPROXY=off GOSUMDB=off GOTOOLCHAIN=local
[ -f harness/go.sum ] || cp /repo/go.sum harness/go.sum
mkdir -p .work evidence replays
cd harness
go test -c -vet=off -o ../.work/warm.test ./props
rm -f ../.work/warm.test
echo setup ok
